package db

// Harness-owned (overlay). Free-running stress of one real inline database (C06, C07, C08): the
// enforced schedules reach only the interleavings that pass through a verif hook point; windows
// without one (e.g. between drawing a sequence number and taking a lock) are reached by letting
// goroutines run freely and judging what they observe by oracles that follow from the
// specification (Spec.Iso) for these particular programs:
//
//   pair      every committer writes the SAME fresh value to keys a and b in one transaction; a
//             snapshot (RR/SER) transaction reading a, b, a must see a = b (one commit's writes all
//             or none) and a = a' (stable re-read); every value read was written by somebody;
//             a key that always has a value is never reported missing (readers of all levels,
//             GetKeys included at snapshot levels is subject to the known finding and not judged)
//   counter   SER transactions increment a counter (read, write value+1, commit; retry on
//             ErrTxSerialization): at the end the counter equals the number of successful commits
//             (no lost update between concurrent snapshot transactions)
//   register  autocommit writers write unique values to one key, readers read it: a read returns a
//             value whose write began before the read ended and that was not already overwritten by
//             a write that had finished before the read began (linearizable register)
//
// The collector runs concurrently all the time.  Any error other than the expected ones, and any
// operation that does not return, is a violation too.

import (
	"encoding/json"
	"errors"
	"fmt"
	"io"
	"os"
	"path/filepath"
	"strconv"
	"sync"
	"sync/atomic"
	"testing"
	"time"

	"github.com/glebziz/fs_db"
	"github.com/glebziz/fs_db/internal/model"
)

type stressBad struct {
	Oracle string `json:"oracle"`
	What   string `json:"what"`
}

type stressOut struct {
	mu   sync.Mutex
	bad  []stressBad
	seen map[string]bool
	ops  atomic.Int64
}

func (o *stressOut) report(oracle, format string, a ...any) {
	o.mu.Lock()
	defer o.mu.Unlock()
	if o.seen[oracle] && len(o.bad) > 12 {
		return
	}
	o.seen[oracle] = true
	o.bad = append(o.bad, stressBad{oracle, fmt.Sprintf(format, a...)})
}

func stressGet(st fs_db.Store, im *seqImpl, key string) (string, error) {
	b, err := st.Get(im.ctx, key)
	if err != nil {
		return "", err
	}
	return string(b), nil
}

func stressPair(im *seqImpl, out *stressOut, dur time.Duration) {
	ctx := im.ctx
	_ = im.d.Set(ctx, "a", []byte("v0"))
	_ = im.d.Set(ctx, "b", []byte("v0"))
	var next atomic.Int64
	written := sync.Map{}
	written.Store("v0", true)
	stop := make(chan struct{})
	var wg sync.WaitGroup
	levels := []model.TxIsoLevel{fs_db.IsoLevelReadUncommitted, fs_db.IsoLevelReadCommitted, fs_db.IsoLevelRepeatableRead, fs_db.IsoLevelSerializable}
	for w := 0; w < 5; w++ {
		wg.Add(1)
		go func(w int) {
			defer wg.Done()
			for i := 0; ; i++ {
				select {
				case <-stop:
					return
				default:
				}
				v := fmt.Sprintf("v%d", next.Add(1))
				written.Store(v, true)
				tx, err := im.d.Begin(ctx, levels[(w+i)%2]) // RU / RC: never a conflict
				if err != nil {
					out.report("pair-error", "Begin: %v", err)
					return
				}
				e1 := tx.Set(ctx, "a", []byte(v))
				e2 := tx.Set(ctx, "b", []byte(v))
				e3 := tx.Commit(ctx)
				if e1 != nil || e2 != nil || e3 != nil {
					out.report("pair-error", "committer: Set/Set/Commit = %v / %v / %v", e1, e2, e3)
					return
				}
				out.ops.Add(4)
			}
		}(w)
	}
	for r := 0; r < 4; r++ {
		wg.Add(1)
		go func(r int) {
			defer wg.Done()
			for i := 0; ; i++ {
				select {
				case <-stop:
					return
				default:
				}
				lvl := levels[2+(r+i)%2]
				tx, err := im.d.Begin(ctx, lvl)
				if err != nil {
					out.report("pair-error", "Begin: %v", err)
					return
				}
				a1, ea := stressGet(tx, im, "a")
				b1, eb := stressGet(tx, im, "b")
				a2, ea2 := stressGet(tx, im, "a")
				_ = tx.Rollback(ctx)
				out.ops.Add(5)
				if ea != nil || eb != nil || ea2 != nil {
					out.report("snapshot-missing", "snapshot (level %d) transaction: Get a / b / a = %v / %v / %v although both keys always have a value", lvl, ea, eb, ea2)
					continue
				}
				if a1 != b1 {
					out.report("snapshot-fractured", "snapshot (level %d) transaction read a=%s b=%s: every commit writes the same value to both keys, so it saw a part of a commit", lvl, a1, b1)
				}
				if a1 != a2 {
					out.report("snapshot-unstable", "snapshot (level %d) transaction re-read a: %s then %s", lvl, a1, a2)
				}
				if _, ok := written.Load(a1); !ok {
					out.report("pair-invented", "read a=%q which nobody wrote", a1)
				}
			}
		}(r)
	}
	// readers outside transactions and at RU/RC: a key that always has a value is never missing
	for r := 0; r < 2; r++ {
		wg.Add(1)
		go func(r int) {
			defer wg.Done()
			for i := 0; ; i++ {
				select {
				case <-stop:
					return
				default:
				}
				var st fs_db.Store = im.d
				var tx fs_db.Tx
				if (r+i)%3 != 0 {
					tx, _ = im.d.Begin(ctx, levels[(r+i)%2])
					st = tx
				}
				v, err := stressGet(st, im, []string{"a", "b"}[i%2])
				if tx != nil {
					_ = tx.Rollback(ctx)
				}
				out.ops.Add(2)
				if err != nil {
					out.report("read-missing", "Get of a key that always has a value: %v", err)
				} else if _, ok := written.Load(v); !ok {
					out.report("pair-invented", "read %q which nobody wrote", v)
				}
			}
		}(r)
	}
	wg.Add(1)
	go func() {
		defer wg.Done()
		for {
			select {
			case <-stop:
				return
			default:
			}
			if err := im.d.container.Cleaner().DeleteOld(ctx); err != nil {
				out.report("gc-error", "DeleteOld: %v", err)
				return
			}
			time.Sleep(200 * time.Microsecond)
		}
	}()
	time.Sleep(dur)
	close(stop)
	wg.Wait()
}

func stressCounter(im *seqImpl, out *stressOut, dur time.Duration) {
	ctx := im.ctx
	_ = im.d.Set(ctx, "cnt", []byte("0"))
	var committed atomic.Int64
	stop := make(chan struct{})
	var wg sync.WaitGroup
	for w := 0; w < 6; w++ {
		wg.Add(1)
		go func(w int) {
			defer wg.Done()
			for i := 0; ; i++ {
				select {
				case <-stop:
					return
				default:
				}
				lvl := fs_db.IsoLevelRepeatableRead
				if (w+i)%2 == 0 {
					lvl = fs_db.IsoLevelSerializable
				}
				tx, err := im.d.Begin(ctx, lvl)
				if err != nil {
					out.report("counter-error", "Begin: %v", err)
					return
				}
				s, err := stressGet(tx, im, "cnt")
				if err != nil {
					out.report("counter-error", "Get cnt in a snapshot transaction: %v", err)
					_ = tx.Rollback(ctx)
					continue
				}
				n, _ := strconv.Atoi(s)
				if err := tx.Set(ctx, "cnt", []byte(strconv.Itoa(n+1))); err != nil {
					out.report("counter-error", "Set cnt: %v", err)
				}
				err = tx.Commit(ctx)
				out.ops.Add(4)
				switch {
				case err == nil:
					committed.Add(1)
				case errors.Is(err, fs_db.ErrTxSerialization):
				default:
					out.report("counter-error", "Commit: %v", err)
				}
			}
		}(w)
	}
	wg.Add(1)
	go func() {
		defer wg.Done()
		for {
			select {
			case <-stop:
				return
			default:
			}
			_ = im.d.container.Cleaner().DeleteOld(ctx)
			time.Sleep(300 * time.Microsecond)
		}
	}()
	time.Sleep(dur)
	close(stop)
	wg.Wait()
	s, err := stressGet(im.d, im, "cnt")
	n, _ := strconv.Atoi(s)
	if err != nil || int64(n) != committed.Load() {
		out.report("lost-update", "%d Commits of snapshot transactions that each incremented the counter returned nil, the counter reads %q (err %v): %d updates lost", committed.Load(), s, err, committed.Load()-int64(n))
	}
}

func stressRegister(im *seqImpl, out *stressOut, dur time.Duration) {
	ctx := im.ctx
	var clock atomic.Int64
	type wr struct{ inv, ret int64 }
	var mu sync.Mutex
	writes := map[string]*wr{}
	put := func(v string) {
		w := &wr{inv: clock.Add(1)}
		mu.Lock()
		writes[v] = w
		mu.Unlock()
		var err error
		switch len(v) % 3 {
		case 0:
			err = im.d.Set(ctx, "reg", []byte(v))
		case 1:
			err = im.d.SetReader(ctx, "reg", &shortReader{b: []byte(v), rng: &seqRng{s: uint64(len(v))}})
		default:
			var f io.WriteCloser
			f, err = im.d.Create(ctx, "reg")
			if err == nil {
				_, _ = f.Write([]byte(v))
				err = f.Close()
			}
		}
		if err != nil {
			out.report("register-error", "autocommit write: %v", err)
		}
		mu.Lock()
		w.ret = clock.Add(1)
		mu.Unlock()
	}
	put("w-init")
	stop := make(chan struct{})
	var wg sync.WaitGroup
	for w := 0; w < 3; w++ {
		wg.Add(1)
		go func(w int) {
			defer wg.Done()
			for i := 0; ; i++ {
				select {
				case <-stop:
					return
				default:
				}
				put(fmt.Sprintf("w%d-%d-%s", w, i, "xxxxxxxx"[:i%7]))
				out.ops.Add(1)
			}
		}(w)
	}
	for r := 0; r < 4; r++ {
		wg.Add(1)
		go func() {
			defer wg.Done()
			for {
				select {
				case <-stop:
					return
				default:
				}
				inv := clock.Add(1)
				v, err := stressGet(im.d, im, "reg")
				ret := clock.Add(1)
				out.ops.Add(1)
				if err != nil {
					out.report("read-missing", "autocommit Get of a key that always has a value: %v", err)
					continue
				}
				mu.Lock()
				w := writes[v]
				var newer string
				if w != nil && w.inv < ret {
					for v2, w2 := range writes {
						if w2.ret != 0 && w.ret != 0 && w.ret < w2.inv && w2.ret < inv {
							newer = v2
							break
						}
					}
				}
				mu.Unlock()
				switch {
				case w == nil:
					out.report("register-invented", "read %q which nobody wrote (partial or mixed content)", v)
				case w.inv >= ret:
					out.report("register-future", "read %q before its write began", v)
				case newer != "":
					out.report("register-stale", "read %q although the write of %q had begun after it was acknowledged and was itself acknowledged before the read began: an acknowledged write was lost or an old one resurrected", v, newer)
				}
			}
		}()
	}
	// several collector passes at once (the periodic pass runs on a pool with more than one worker,
	// and nothing serialises passes): the model allows any number of collector goroutines
	for g := 0; g < 3; g++ {
		wg.Add(1)
		go func(g int) {
			defer wg.Done()
			for {
				select {
				case <-stop:
					return
				default:
				}
				_ = im.d.container.Cleaner().DeleteOld(ctx)
				if g == 0 {
					time.Sleep(300 * time.Microsecond)
				}
			}
		}(g)
	}
	time.Sleep(dur)
	close(stop)
	wg.Wait()
}

// Begin racing with overwrites and collector passes while the registry keeps becoming empty: the
// snapshot must read SOME committed value of a key that always has one (horizon / begin-number order).
func stressBeginRace(im *seqImpl, out *stressOut, dur time.Duration) {
	ctx := im.ctx
	_ = im.d.Set(ctx, "k", []byte("x0"))
	stop := make(chan struct{})
	var wg sync.WaitGroup
	var n atomic.Int64
	for r := 0; r < 3; r++ {
		wg.Add(1)
		go func(r int) {
			defer wg.Done()
			for i := 0; ; i++ {
				select {
				case <-stop:
					return
				default:
				}
				lvl := []model.TxIsoLevel{fs_db.IsoLevelRepeatableRead, fs_db.IsoLevelSerializable}[(r+i)%2]
				tx, err := im.d.Begin(ctx, lvl)
				if err != nil {
					out.report("begin-error", "Begin: %v", err)
					return
				}
				v1, e1 := stressGet(tx, im, "k")
				v2, e2 := stressGet(tx, im, "k")
				_ = tx.Rollback(ctx)
				out.ops.Add(4)
				if e1 != nil || e2 != nil {
					out.report("snapshot-missing", "snapshot (level %d) transaction begun while overwrites and collector passes run: Get k = %v / %v although k always has a value", lvl, e1, e2)
				} else if v1 != v2 {
					out.report("snapshot-unstable", "snapshot (level %d) transaction re-read k: %s then %s", lvl, v1, v2)
				}
				if i%8 == 0 {
					time.Sleep(50 * time.Microsecond) // let the registry stay empty for a while
				}
			}
		}(r)
	}
	for w := 0; w < 2; w++ {
		wg.Add(1)
		go func() {
			defer wg.Done()
			for {
				select {
				case <-stop:
					return
				default:
				}
				if err := im.d.Set(ctx, "k", []byte(fmt.Sprintf("x%d", n.Add(1)))); err != nil {
					out.report("begin-error", "Set: %v", err)
					return
				}
				out.ops.Add(1)
			}
		}()
	}
	for g := 0; g < 2; g++ {
		wg.Add(1)
		go func() {
			defer wg.Done()
			for {
				select {
				case <-stop:
					return
				default:
				}
				_ = im.d.container.Cleaner().DeleteOld(ctx)
			}
		}()
	}
	time.Sleep(dur)
	close(stop)
	wg.Wait()
}

func TestVerifConcStress(t *testing.T) {
	outDir := os.Getenv("VERIF_OUT")
	if outDir == "" {
		t.Skip("VERIF_OUT not set")
	}
	ms, _ := strconv.Atoi(os.Getenv("VERIF_STRESS_MS"))
	if ms == 0 {
		ms = 800
	}
	which := os.Getenv("VERIF_STRESS")
	out := &stressOut{seen: map[string]bool{}}
	progs := map[string]func(*seqImpl, *stressOut, time.Duration){"pair": stressPair, "counter": stressCounter, "register": stressRegister, "beginrace": stressBeginRace}
	var ran []string
	for _, name := range []string{"pair", "counter", "register", "beginrace"} {
		if which != "" && which != name {
			continue
		}
		dir := filepath.Join(outDir, "stress-"+name)
		os.RemoveAll(dir)
		im := newSeqImpl(dir, 2)
		if err := im.open(); err != nil {
			t.Fatalf("open: %v", err)
		}
		done := make(chan struct{})
		go func() {
			defer func() {
				if r := recover(); r != nil {
					out.report(name+"-panic", "panic: %v", r)
				}
				close(done)
			}()
			progs[name](im, out, time.Duration(ms)*time.Millisecond)
		}()
		select {
		case <-done:
			drainPool()
			im.close()
		case <-time.After(time.Duration(ms)*time.Millisecond + 20*time.Second):
			out.report(name+"-hang", "the stress program did not finish: some operation never returned (deadlock)")
		}
		os.RemoveAll(dir)
		ran = append(ran, name)
	}
	b, _ := json.Marshal(map[string]any{"bad": out.bad, "ops": out.ops.Load(), "programs": ran, "ms": ms})
	os.WriteFile(filepath.Join(outDir, "stress.json"), b, 0o644)
}
