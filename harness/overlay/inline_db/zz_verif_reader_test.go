package db

// Harness-owned (overlay). C01 / C10: a reader obtained from GetReader delivers exactly the value the key
// had when the reader was obtained, also when it is drained late: after the key was overwritten or
// deleted, the collector ran and the background deletion finished (the content file is unlinked while
// the reader holds it open; nothing may shorten or change what it reads).

import (
	"bytes"
	"encoding/json"
	"fmt"
	"io"
	"os"
	"path/filepath"
	"testing"
)

func TestVerifHeldReader(t *testing.T) {
	out := os.Getenv("VERIF_OUT")
	if out == "" {
		t.Skip("VERIF_OUT not set")
	}
	var bad []string
	cases := 0
	for _, size := range []int{9, 4096, 40000, 262144, 1 << 20} {
		for _, how := range []string{"overwrite", "delete", "tx-overwrite"} {
			for _, firstRead := range []int{0, 1, size / 2} {
				cases++
				dir := filepath.Join(out, fmt.Sprintf("held-%d", cases))
				os.RemoveAll(dir)
				im := newSeqImpl(dir, 2)
				if err := im.open(); err != nil {
					t.Fatal(err)
				}
				v1 := payload(1_000_000_000_000 + uint64(size))
				if err := im.d.Set(im.ctx, "k", v1); err != nil {
					t.Fatal(err)
				}
				r, err := im.d.GetReader(im.ctx, "k")
				if err != nil {
					t.Fatal(err)
				}
				got := make([]byte, 0, size)
				if firstRead > 0 {
					buf := make([]byte, firstRead)
					n, _ := io.ReadFull(r, buf)
					got = append(got, buf[:n]...)
				}
				switch how {
				case "overwrite":
					err = im.d.Set(im.ctx, "k", []byte("second value"))
				case "delete":
					err = im.d.Delete(im.ctx, "k")
				case "tx-overwrite":
					tx, e := im.d.Begin(im.ctx)
					if e == nil {
						e = tx.Set(im.ctx, "k", []byte("second value"))
					}
					if e == nil {
						e = tx.Commit(im.ctx)
					}
					err = e
				}
				if err != nil {
					t.Fatal(err)
				}
				im.d.container.Cleaner().DeleteOld(im.ctx)
				drainPool()
				rest, rerr := io.ReadAll(r)
				r.Close()
				got = append(got, rest...)
				if rerr != nil || !bytes.Equal(got, v1) {
					fd := 0
					for fd < len(got) && fd < len(v1) && got[fd] == v1[fd] {
						fd++
					}
					bad = append(bad, fmt.Sprintf("value of %d bytes, reader obtained, %d bytes read, then %s + collector + cleanup, rest read: got %d bytes (err %v), first difference at offset %d", size, firstRead, how, len(got), rerr, fd))
				}
				im.close()
				os.RemoveAll(dir)
			}
		}
	}
	b, _ := json.Marshal(map[string]any{"cases": cases, "bad": bad})
	os.WriteFile(filepath.Join(out, "heldreader.json"), b, 0o644)
}
