package db

// Harness-owned (overlay). C17: long sequential histories of tiny writes, deletions, collections and
// reopenings; after every operation the storage roots are walked: placement (root/uuid-dir/file) and
// the entry count of every directory.  The walk's differences are turned into the model's ops
// (`dir put <root> <entries before>`, `dir del …`, `dir reopen`), the model checks every observed
// choice is a legal candidate, and `dir tree` lines compare the per-root multisets of entry counts.

import (
	"bufio"
	"encoding/json"
	"fmt"
	"os"
	"path/filepath"
	"sort"
	"strconv"
	"strings"
	"testing"

	"github.com/google/uuid"
)

type c17walk struct {
	counts []map[string]int
	bad    []string
}

func (im *seqImpl) walk17() c17walk {
	w := c17walk{}
	for _, root := range im.roots {
		m := map[string]int{}
		ents, _ := os.ReadDir(root)
		for _, e := range ents {
			if !e.IsDir() || uuid.Validate(e.Name()) != nil {
				w.bad = append(w.bad, "not-a-uuid-dir:"+e.Name())
				continue
			}
			fs, _ := os.ReadDir(filepath.Join(root, e.Name()))
			for _, f := range fs {
				if f.IsDir() {
					w.bad = append(w.bad, "nested-dir")
				}
			}
			m[e.Name()] = len(fs)
		}
		w.counts = append(w.counts, m)
	}
	return w
}

func (w c17walk) String() string {
	var parts []string
	for _, m := range w.counts {
		var cs []int
		for _, c := range m {
			cs = append(cs, c)
		}
		sort.Ints(cs)
		ss := make([]string, len(cs))
		for i, c := range cs {
			ss[i] = strconv.Itoa(c)
		}
		parts = append(parts, strings.Join(ss, ","))
	}
	s := strings.Join(parts, "|")
	if len(w.bad) > 0 {
		s += " BAD:" + strings.Join(w.bad, ";")
	}
	return s
}

func TestVerifC17(t *testing.T) {
	out := os.Getenv("VERIF_OUT")
	if out == "" {
		t.Skip("VERIF_OUT not set")
	}
	seed, _ := strconv.ParseUint(os.Getenv("VERIF_SEED"), 10, 64)
	nhist, _ := strconv.Atoi(os.Getenv("VERIF_HISTORIES"))
	if nhist == 0 {
		nhist = 3
	}
	opsF, _ := os.Create(filepath.Join(out, "c17.ops"))
	implF, _ := os.Create(filepath.Join(out, "c17.impl"))
	ops, impl := bufio.NewWriterSize(opsF, 1<<20), bufio.NewWriterSize(implF, 1<<20)
	rng := &seqRng{s: seed*99991 + 17}
	lines, rotations, maxSeen := 0, 0, 0
	emit := func(op, res string) {
		fmt.Fprintln(ops, op)
		fmt.Fprintln(impl, res)
		lines++
	}
	for h := 0; h < nhist; h++ {
		nroots := 1 + h%3
		dir := filepath.Join(out, fmt.Sprintf("c17-%d", h))
		os.RemoveAll(dir)
		im := newSeqImpl(dir, nroots)
		if err := im.open(); err != nil {
			t.Fatal(err)
		}
		emit(fmt.Sprintf("dir new %d %d", nroots, 100), "ok")
		prev := im.walk17()
		keys := 0
		var live []string
		diff := func(after c17walk, kind string) {
			for r := range after.counts {
				for name, c := range after.counts[r] {
					p, existed := prev.counts[r][name]
					if !existed {
						p = 0
						if kind == "put" {
							rotations++
						}
					}
					for c > p { // gained entries
						emit(fmt.Sprintf("dir put %d %d", r, p), "ok")
						p++
					}
					for c < p { // lost entries
						emit(fmt.Sprintf("dir del %d %d", r, p), "ok")
						p--
					}
					if c > maxSeen {
						maxSeen = c
					}
				}
			}
			emit("dir tree", after.String())
			prev = after
		}
		steps := 300*nroots + rng.n(80)
		for i := 0; i < steps; i++ {
			r := rng.n(100)
			switch {
			case r < 90 || len(live) < 5:
				keys++
				k := fmt.Sprintf("key-%d", keys)
				if err := im.d.Set(im.ctx, k, []byte{byte(keys)}); err != nil {
					t.Fatalf("set: %v", err)
				}
				live = append(live, k)
				diff(im.walk17(), "put")
			case r < 96:
				// delete a batch, collect, drain: the files really go away
				n := 1 + rng.n(6)
				for j := 0; j < n && len(live) > 0; j++ {
					x := rng.n(len(live))
					im.d.Delete(im.ctx, live[x])
					live = append(live[:x], live[x+1:]...)
				}
				im.d.container.Cleaner().DeleteOld(im.ctx)
				drainPool()
				diff(im.walk17(), "del")
			default:
				drainPool()
				if err := im.close(); err != nil {
					t.Fatal(err)
				}
				if err := im.open(); err != nil {
					t.Fatal(err)
				}
				drainPool()
				emit("dir reopen", "ok")
				diff(im.walk17(), "reopen")
			}
		}
		im.close()
		os.RemoveAll(dir)
	}
	// "directories that regain room through deletions are used again": fill a directory, make the store
	// move on to a second one, free 60 entries of the first, write 40 more files.  Each of them chooses
	// between two candidates: the first directory stays at 40 entries with probability 2^-40.
	var reuseBad []string
	for variant := 0; variant < 3; variant++ {
		dir := filepath.Join(out, fmt.Sprintf("c17-reuse-%d", variant))
		os.RemoveAll(dir)
		im := newSeqImpl(dir, 1)
		root := filepath.Join(dir, "root0")
		switch variant { // the configured spelling of a root need not be its cleaned form
		case 1:
			root += "/"
		case 2:
			root = dir + "/./root0"
		}
		im.roots[0] = root
		im.cfg.Storage.RootDirs = []string{root}
		if err := im.open(); err != nil {
			t.Fatal(err)
		}
		for i := 0; i < 101; i++ {
			if err := im.d.Set(im.ctx, fmt.Sprintf("reuse-%d", i), []byte{1}); err != nil {
				t.Fatalf("set: %v", err)
			}
		}
		first := ""
		for name, c := range im.walk17().counts[0] {
			if c == 100 {
				first = name
			}
		}
		for i := 0; i < 60; i++ {
			im.d.Delete(im.ctx, fmt.Sprintf("reuse-%d", i))
		}
		im.d.container.Cleaner().DeleteOld(im.ctx)
		drainPool()
		before := im.walk17().counts[0][first]
		for i := 0; i < 40; i++ {
			if err := im.d.Set(im.ctx, fmt.Sprintf("again-%d", i), []byte{2}); err != nil {
				t.Fatalf("set: %v", err)
			}
		}
		after := im.walk17().counts[0][first]
		if first == "" || before != 40 || after <= before {
			reuseBad = append(reuseBad, fmt.Sprintf("root spelled %q: the directory that was full held %d entries after 60 deletions and %d after 40 further writes (never used again)", root, before, after))
		}
		im.close()
		os.RemoveAll(dir)
	}
	// "content lives under the CONFIGURED roots": a database that was used with two roots is reopened
	// with the first one only; everything is deleted and collected (the clean-up hands the emptied
	// directories of both roots back to the directory repository); 60 further writes must all land
	// under the one configured root.
	{
		dir := filepath.Join(out, "c17-dropped-root")
		os.RemoveAll(dir)
		im := newSeqImpl(dir, 2)
		if err := im.open(); err != nil {
			t.Fatal(err)
		}
		for i := 0; i < 60; i++ {
			if err := im.d.Set(im.ctx, fmt.Sprintf("both-%d", i), []byte{1}); err != nil {
				t.Fatalf("set: %v", err)
			}
		}
		im.close()
		all := append([]string(nil), im.roots...)
		im.roots = all[:1]
		im.cfg.Storage.RootDirs = []string{all[0]}
		if err := im.open(); err != nil {
			t.Fatal(err)
		}
		for i := 0; i < 60; i++ {
			im.d.Delete(im.ctx, fmt.Sprintf("both-%d", i))
		}
		im.d.container.Cleaner().DeleteOld(im.ctx)
		drainPool()
		count := func(root string) (n int) {
			filepath.Walk(root, func(_ string, fi os.FileInfo, err error) error {
				if err == nil && !fi.IsDir() {
					n++
				}
				return nil
			})
			return n
		}
		before := count(all[1])
		for i := 0; i < 60; i++ {
			if err := im.d.Set(im.ctx, fmt.Sprintf("one-%d", i), []byte{2}); err != nil {
				t.Fatalf("set: %v", err)
			}
		}
		if after := count(all[1]); after > before {
			reuseBad = append(reuseBad, fmt.Sprintf("dropped root: reopened with the first of two roots only, deleted and collected everything, wrote 60 files: %d of them were stored under the root that is no longer configured", after-before))
		}
		im.close()
		os.RemoveAll(dir)
	}
	ops.Flush()
	impl.Flush()
	opsF.Close()
	implF.Close()
	rb, _ := json.Marshal(reuseBad)
	os.WriteFile(filepath.Join(out, "c17.stats.json"), []byte(fmt.Sprintf(`{"lines": %d, "histories": %d, "new_dirs": %d, "max_entries_seen": %d, "reuse_scenarios": 4, "reuse_bad": %s}`, lines, nhist, rotations, maxSeen, rb)), 0o644)
}
