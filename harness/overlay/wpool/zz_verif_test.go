package wpool

// Harness-owned (overlay). C16: the real worker pool under orchestrated and random schedules.
// Scenarios: (handoff) a deferred Send arriving while the flusher is about to exit; (stop2) two
// concurrent Stops; (order) Send/Stop/Run in unusual orders; (stress) many senders against slow
// workers.  Every job counts its executions; the oracle is "every accepted job exactly once, Stop
// returns, nothing panics".

import (
	"context"
	"encoding/json"
	"fmt"
	"os"
	"path/filepath"
	"runtime"
	"strconv"
	"sync"
	"sync/atomic"
	"testing"
	"time"

	"github.com/glebziz/fs_db/internal/verifhook"
)

type wRes struct {
	Scenario string `json:"scenario"`
	Ok       bool   `json:"ok"`
	What     string `json:"what"`
	Sent     int    `json:"sent"`
	Executed int    `json:"executed"`
	Twice    int    `json:"twice"`
}

type counter struct {
	mu sync.Mutex
	n  map[int]int
}

func (c *counter) job(id int, latch chan struct{}) Event {
	return Event{Caller: fmt.Sprint("job", id), Fn: func(context.Context) error {
		if latch != nil {
			<-latch
		}
		c.mu.Lock()
		c.n[id]++
		c.mu.Unlock()
		return nil
	}}
}

func (c *counter) stats(sent int) (executed, twice int) {
	c.mu.Lock()
	defer c.mu.Unlock()
	for _, v := range c.n {
		if v >= 1 {
			executed++
		}
		if v > 1 {
			twice++
		}
	}
	return
}

func waitFor(cond func() bool, d time.Duration) bool {
	dl := time.Now().Add(d)
	for time.Now().Before(dl) {
		if cond() {
			return true
		}
		time.Sleep(time.Millisecond)
	}
	return cond()
}

func guarded(name string, f func() wRes) (r wRes) {
	defer func() {
		if p := recover(); p != nil {
			r = wRes{Scenario: name, Ok: false, What: fmt.Sprintf("panic: %v", p)}
		}
	}()
	return f()
}

// the deferred Send that arrives while the flusher has found the list empty and is about to exit
func scenarioHandoff() wRes {
	ctx := context.Background()
	c := &counter{n: map[int]int{}}
	p := New(Options{NumWorkers: 1, SendDuration: time.Millisecond})
	p.Run(ctx)
	l1, l2 := make(chan struct{}), make(chan struct{})
	hold, release := make(chan struct{}), make(chan struct{})
	var held atomic.Bool
	verifhook.SetPoint("fl.beforeExit", func() {
		if held.CompareAndSwap(false, true) {
			close(hold)
			<-release
		}
	})
	defer verifhook.SetPoint("fl.beforeExit", nil)
	sent := 0
	send := func(id int, latch chan struct{}) { p.Send(ctx, c.job(id, latch)); sent++ }
	send(1, l1) // worker takes it and blocks
	time.Sleep(5 * time.Millisecond)
	send(2, nil)
	send(3, nil) // channel (capacity 2) is full
	send(4, nil) // deferred: flusher starts, pops 4, blocks on the full channel
	close(l1)    // worker drains; flusher delivers 4, finds the list empty, reaches fl.beforeExit
	select {
	case <-hold:
	case <-time.After(2 * time.Second):
		return wRes{Scenario: "handoff", Ok: false, What: "flusher never reached its exit point (scenario not set up)", Sent: sent}
	}
	// fill the channel again behind a blocked worker
	send(5, l2)
	time.Sleep(5 * time.Millisecond)
	send(6, nil)
	send(7, nil)
	done := make(chan struct{})
	go func() { p.Send(ctx, c.job(8, nil)); close(done) }() // deferred while the flusher is exiting
	sent++
	time.Sleep(20 * time.Millisecond)
	close(release)
	<-done
	close(l2)
	ok := waitFor(func() bool { e, _ := c.stats(sent); return e == sent }, 1500*time.Millisecond)
	e, tw := c.stats(sent)
	stopped := make(chan struct{})
	go func() { p.Stop(); close(stopped) }()
	select {
	case <-stopped:
	case <-time.After(3 * time.Second):
		return wRes{Scenario: "handoff", Ok: false, What: "Stop did not return", Sent: sent, Executed: e, Twice: tw}
	}
	what := ""
	if !ok {
		what = fmt.Sprintf("%d of %d accepted jobs were never executed without a further Send", sent-e, sent)
	}
	if tw > 0 {
		ok, what = false, what+fmt.Sprintf(" %d jobs executed more than once", tw)
	}
	return wRes{Scenario: "handoff", Ok: ok, What: what, Sent: sent, Executed: e, Twice: tw}
}

func scenarioStress(seed uint64, senders, jobs, workers int) wRes {
	ctx := context.Background()
	c := &counter{n: map[int]int{}}
	p := New(Options{NumWorkers: workers, SendDuration: time.Microsecond})
	p.Run(ctx)
	var wg sync.WaitGroup
	for s := 0; s < senders; s++ {
		wg.Add(1)
		go func(s int) {
			defer wg.Done()
			for j := 0; j < jobs; j++ {
				id := s*jobs + j
				p.Send(ctx, Event{Caller: "s", Fn: func(context.Context) error {
					if (uint64(id)*2654435761+seed)%7 == 0 {
						time.Sleep(200 * time.Microsecond)
					}
					c.mu.Lock()
					c.n[id]++
					c.mu.Unlock()
					return nil
				}})
			}
		}(s)
	}
	wg.Wait()
	sent := senders * jobs
	ok := waitFor(func() bool { e, _ := c.stats(sent); return e == sent }, 3*time.Second)
	e, tw := c.stats(sent)
	stopped := make(chan struct{})
	go func() { p.Stop(); close(stopped) }()
	select {
	case <-stopped:
	case <-time.After(3 * time.Second):
		return wRes{Scenario: "stress", Ok: false, What: "Stop did not return", Sent: sent, Executed: e, Twice: tw}
	}
	what := ""
	if !ok {
		what = fmt.Sprintf("%d of %d accepted jobs never executed", sent-e, sent)
	}
	if tw > 0 {
		ok, what = false, what+fmt.Sprintf(" %d jobs executed more than once", tw)
	}
	// nothing may start after Stop returned
	c.mu.Lock()
	before := len(c.n)
	c.mu.Unlock()
	time.Sleep(5 * time.Millisecond)
	c.mu.Lock()
	after := len(c.n)
	c.mu.Unlock()
	if after != before {
		ok, what = false, what+" a job started after Stop returned"
	}
	return wRes{Scenario: "stress", Ok: ok, What: what, Sent: sent, Executed: e, Twice: tw}
}

// Run - deferred Send - Stop - Run again - deferred Sends: the second session must flush them too
func scenarioRestart(single bool) wRes {
	if single {
		defer runtime.GOMAXPROCS(runtime.GOMAXPROCS(1))
	}
	ctx := context.Background()
	c := &counter{n: map[int]int{}}
	p := New(Options{NumWorkers: 1, SendDuration: 2 * time.Millisecond})
	// session A: busy worker, full buffer, one deferred Send, Stop at once
	p.Run(ctx)
	la := make(chan struct{})
	p.Send(ctx, c.job(1001, la))
	time.Sleep(3 * time.Millisecond)
	p.Send(ctx, c.job(1002, nil))
	p.Send(ctx, c.job(1003, nil))
	p.Send(ctx, c.job(1004, nil)) // deferred
	stopped := make(chan struct{})
	go func() { p.Stop(); close(stopped) }()
	time.Sleep(time.Millisecond)
	close(la)
	select {
	case <-stopped:
	case <-time.After(3 * time.Second):
		return wRes{Scenario: "restart", Ok: false, What: "Stop did not return (session A)"}
	}
	// session B
	c2 := &counter{n: map[int]int{}}
	p.Run(ctx)
	lb := make(chan struct{})
	sent := 0
	send := func(id int, l chan struct{}) { p.Send(ctx, c2.job(id, l)); sent++ }
	send(1, lb)
	time.Sleep(3 * time.Millisecond)
	send(2, nil)
	send(3, nil)
	send(4, nil) // deferred
	send(5, nil) // deferred
	send(6, nil) // deferred
	close(lb)
	ok := waitFor(func() bool { e, _ := c2.stats(sent); return e == sent }, 2*time.Second)
	e, tw := c2.stats(sent)
	go p.Stop()
	what := ""
	if !ok {
		what = fmt.Sprintf("after Stop and a second Run: %d jobs accepted by Send, only %d executed", sent, e)
	}
	return wRes{Scenario: "restart", Ok: ok && tw == 0, What: what, Sent: sent, Executed: e, Twice: tw}
}

func scenarioOrders() []wRes {
	ctx := context.Background()
	var out []wRes
	out = append(out, guarded("send-before-run", func() wRes {
		p := New(Options{NumWorkers: 1})
		p.Send(ctx, Event{Caller: "x", Fn: func(context.Context) error { return nil }})
		return wRes{Scenario: "send-before-run", Ok: true}
	}))
	out = append(out, guarded("stop-before-run", func() wRes {
		p := New(Options{NumWorkers: 1})
		p.Stop()
		p.Run(ctx)
		p.Stop()
		return wRes{Scenario: "stop-before-run", Ok: true}
	}))
	out = append(out, guarded("run-twice-stop-run-send", func() wRes {
		p := New(Options{NumWorkers: 2})
		p.Run(ctx)
		p.Run(ctx)
		p.Stop()
		p.Stop()
		p.Run(ctx)
		var n atomic.Int32
		p.Send(ctx, Event{Caller: "x", Fn: func(context.Context) error { n.Add(1); return nil }})
		ok := waitFor(func() bool { return n.Load() == 1 }, time.Second)
		p.Stop()
		p.Send(ctx, Event{Caller: "x", Fn: func(context.Context) error { n.Add(1); return nil }}) // after Stop: dropped
		return wRes{Scenario: "run-twice-stop-run-send", Ok: ok && n.Load() == 1, What: fmt.Sprint("executions=", n.Load())}
	}))
	return out
}

func scenarioStop2(rounds int) wRes {
	ctx := context.Background()
	for i := 0; i < rounds; i++ {
		p := New(Options{NumWorkers: 2})
		p.Run(ctx)
		var wg sync.WaitGroup
		for k := 0; k < 2; k++ {
			wg.Add(1)
			go func() { defer wg.Done(); p.Stop() }()
		}
		done := make(chan struct{})
		go func() { wg.Wait(); close(done) }()
		select {
		case <-done:
		case <-time.After(3 * time.Second):
			return wRes{Scenario: "stop2", Ok: false, What: "concurrent Stops did not return"}
		}
	}
	return wRes{Scenario: "stop2", Ok: true}
}

// Sends arriving all the time while the pool is stopped and started again and again: "Send/Stop/Run in
// any order and concurrency neither panic nor deadlock", and a job accepted while running is executed
// (exactly once) or given up by a Stop, never executed twice
func scenarioSendVsStop(d time.Duration) wRes {
	ctx := context.Background()
	c := &counter{n: map[int]int{}}
	p := New(Options{NumWorkers: 2, SendDuration: 10 * time.Microsecond})
	p.Run(ctx)
	var stop atomic.Bool
	var wg sync.WaitGroup
	var ids atomic.Int64
	panics := make(chan string, 32)
	for i := 0; i < 8; i++ {
		wg.Add(1)
		go func() {
			defer wg.Done()
			defer func() {
				if r := recover(); r != nil {
					panics <- fmt.Sprintf("Send: %v", r)
				}
			}()
			for !stop.Load() {
				p.Send(ctx, c.job(int(ids.Add(1)), nil))
			}
		}()
	}
	res := wRes{Scenario: "sendstop", Ok: true}
	func() {
		defer func() {
			if r := recover(); r != nil {
				res = wRes{Scenario: "sendstop", Ok: false, What: fmt.Sprintf("panic in Stop/Run while Sends are arriving: %v", r)}
			}
		}()
		deadline := time.Now().Add(d)
		for time.Now().Before(deadline) {
			done := make(chan struct{})
			var pv any
			go func() {
				defer close(done)
				defer func() { pv = recover() }()
				p.Stop()
				p.Run(ctx)
			}()
			select {
			case <-done:
				if pv != nil {
					panic(pv)
				}
			case <-time.After(5 * time.Second):
				res = wRes{Scenario: "sendstop", Ok: false, What: "Stop/Run did not return while Sends are arriving (deadlock)"}
				return
			}
		}
	}()
	stop.Store(true)
	fin := make(chan struct{})
	go func() { wg.Wait(); close(fin) }()
	select {
	case <-fin:
	case <-time.After(5 * time.Second):
		if res.Ok {
			res = wRes{Scenario: "sendstop", Ok: false, What: "a Send never returned"}
		}
		return res
	}
	select {
	case m := <-panics:
		if res.Ok {
			res = wRes{Scenario: "sendstop", Ok: false, What: "panic in " + m}
		}
	default:
	}
	if res.Ok {
		func() {
			defer func() { recover() }()
			p.Stop()
		}()
		c.mu.Lock()
		for id, n := range c.n {
			if n > 1 {
				res = wRes{Scenario: "sendstop", Ok: false, What: fmt.Sprintf("job %d was executed %d times", id, n)}
				break
			}
		}
		c.mu.Unlock()
	}
	return res
}

// a second Stop called while the first is still waiting for an in-flight job: when EITHER returns, no
// job may still be running ("Stop returns after in-flight jobs have finished")
func scenarioStopWait() wRes {
	ctx := context.Background()
	p := New(Options{NumWorkers: 2})
	p.Run(ctx)
	started, release := make(chan struct{}), make(chan struct{})
	var running atomic.Bool
	p.Send(ctx, Event{Caller: "slow", Fn: func(context.Context) error {
		running.Store(true)
		close(started)
		<-release // the job winds down slowly after the pool's context is cancelled
		time.Sleep(2 * time.Millisecond)
		running.Store(false)
		return nil
	}})
	select {
	case <-started:
	case <-time.After(3 * time.Second):
		return wRes{Scenario: "stopwait", Ok: false, What: "the job never started"}
	}
	stop1 := make(chan bool, 1)
	go func() { p.Stop(); stop1 <- running.Load() }()
	time.Sleep(5 * time.Millisecond) // Stop 1 is now waiting for the job
	stop2 := make(chan bool, 1)
	go func() { p.Stop(); stop2 <- running.Load() }()
	early := false
	select {
	case r := <-stop2:
		early = r
		stop2 <- r
	case <-time.After(40 * time.Millisecond):
	}
	close(release)
	var r1, r2 bool
	select {
	case r1 = <-stop1:
	case <-time.After(3 * time.Second):
		return wRes{Scenario: "stopwait", Ok: false, What: "Stop did not return after the in-flight job had finished"}
	}
	select {
	case r2 = <-stop2:
	case <-time.After(3 * time.Second):
		return wRes{Scenario: "stopwait", Ok: false, What: "the second Stop did not return"}
	}
	if early || r1 || r2 {
		return wRes{Scenario: "stopwait", Ok: false, What: "a Stop called while another Stop was waiting returned while an in-flight job was still running"}
	}
	return wRes{Scenario: "stopwait", Ok: true}
}

// a sender's context is cancelled while its job is running (or still queued): that is the job's
// business only — the job is executed, the workers live on, every later job is executed
func scenarioSenderCancel(workers int, queued bool) wRes {
	name := "sendercancel"
	bg := context.Background()
	p := New(Options{NumWorkers: workers, SendDuration: time.Millisecond})
	p.Run(bg)
	defer func() { // a pool that lost its workers may never stop: do not wait for it for ever
		done := make(chan struct{})
		go func() { p.Stop(); close(done) }()
		select {
		case <-done:
		case <-time.After(3 * time.Second):
		}
	}()
	c := &counter{n: map[int]int{}}
	sent := 0
	count := func(id int) {
		c.mu.Lock()
		c.n[id]++
		c.mu.Unlock()
	}
	for round := 0; round < workers; round++ { // once per worker: each of them could be the one that is lost
		release := make(chan struct{})
		var blockers sync.WaitGroup
		if queued { // occupy every worker, so that the job of the cancelling sender waits in the channel
			for w := 0; w < workers; w++ {
				id := sent
				sent++
				blockers.Add(1)
				p.Send(bg, Event{Caller: "blocker", Fn: func(context.Context) error {
					blockers.Done()
					<-release
					count(id)
					return nil
				}})
			}
			blockers.Wait()
		}
		sctx, cancel := context.WithCancel(bg)
		started := make(chan struct{})
		id := sent
		sent++
		p.Send(sctx, Event{Caller: "cancelled-sender", Fn: func(context.Context) error {
			close(started)
			if !queued {
				<-release
			}
			count(id)
			return nil
		}})
		if !queued {
			select {
			case <-started:
			case <-time.After(3 * time.Second):
				cancel()
				close(release)
				return wRes{Scenario: name, Ok: false, What: "a job sent to a running pool never started", Sent: sent}
			}
		}
		cancel() // the sender goes away (e.g. the request that called Commit has returned)
		time.Sleep(2 * time.Millisecond)
		close(release)
	}
	for k := 0; k < 2*workers+3; k++ {
		sent++
		p.Send(bg, c.job(sent-1, nil))
	}
	if !waitFor(func() bool { e, _ := c.stats(sent); return e == sent }, 3*time.Second) {
		e, tw := c.stats(sent)
		return wRes{Scenario: name, Ok: false, What: fmt.Sprintf("after %d senders had their context cancelled while their job was %s (workers=%d): only %d of %d jobs accepted by the running pool were executed", workers, map[bool]string{true: "queued", false: "running"}[queued], workers, e, sent), Sent: sent, Executed: e, Twice: tw}
	}
	e, tw := c.stats(sent)
	if tw > 0 {
		return wRes{Scenario: name, Ok: false, What: fmt.Sprintf("%d jobs executed twice", tw), Sent: sent, Executed: e, Twice: tw}
	}
	return wRes{Scenario: name, Ok: true, Sent: sent, Executed: e}
}

// Sends whose context has already ended: the pool runs the job all the same (the sender's context
// is the job's business, not the pool's)
func scenarioEndedCtxSend(workers int) wRes {
	name := "endedctx"
	bg := context.Background()
	p := New(Options{NumWorkers: workers, SendDuration: time.Millisecond})
	p.Run(bg)
	defer func() {
		done := make(chan struct{})
		go func() { p.Stop(); close(done) }()
		select {
		case <-done:
		case <-time.After(3 * time.Second):
		}
	}()
	c := &counter{n: map[int]int{}}
	sent := 24
	for i := 0; i < sent; i++ {
		ctx, cancel := context.WithCancel(bg)
		cancel()
		p.Send(ctx, c.job(i, nil))
	}
	if !waitFor(func() bool { e, _ := c.stats(sent); return e == sent }, 3*time.Second) {
		e, tw := c.stats(sent)
		return wRes{Scenario: name, Ok: false, What: fmt.Sprintf("%d jobs were handed to Send of a running pool through a context that had already ended (workers=%d): only %d were executed", sent, workers, e), Sent: sent, Executed: e, Twice: tw}
	}
	e, tw := c.stats(sent)
	if tw > 0 {
		return wRes{Scenario: name, Ok: false, What: fmt.Sprintf("%d jobs executed twice", tw), Sent: sent, Executed: e, Twice: tw}
	}
	return wRes{Scenario: name, Ok: true, Sent: sent, Executed: e}
}

// a job that is running when Stop begins hands a follow-up job to the pool; another goroutine
// Sends while Stop is waiting: neither may dead-lock, both Sends return promptly
func scenarioSendDuringStop() wRes {
	name := "sendduringstop"
	bg := context.Background()
	p := New(Options{NumWorkers: 1, SendDuration: time.Millisecond})
	p.Run(bg)
	started, goOn := make(chan struct{}), make(chan struct{})
	inner := make(chan time.Duration, 1)
	p.Send(bg, Event{Caller: "chaining", Fn: func(ctx context.Context) error {
		close(started)
		<-goOn
		t0 := time.Now()
		p.Send(bg, Event{Caller: "follow-up", Fn: func(context.Context) error { return nil }})
		inner <- time.Since(t0)
		return nil
	}})
	select {
	case <-started:
	case <-time.After(3 * time.Second):
		return wRes{Scenario: name, Ok: false, What: "the job never started"}
	}
	stopped := make(chan struct{})
	go func() { p.Stop(); close(stopped) }()
	time.Sleep(10 * time.Millisecond) // Stop has cancelled the context and waits for the job
	outer := make(chan time.Duration, 1)
	go func() {
		t0 := time.Now()
		p.Send(bg, Event{Caller: "outside", Fn: func(context.Context) error { return nil }})
		outer <- time.Since(t0)
	}()
	var dOuter time.Duration
	select {
	case dOuter = <-outer:
	case <-time.After(500 * time.Millisecond):
		dOuter = -1
	}
	close(goOn)
	select {
	case <-stopped:
	case <-time.After(3 * time.Second):
		return wRes{Scenario: name, Ok: false, What: "dead-lock: Stop waits for the in-flight job, and the Send that job makes never returns"}
	}
	dInner := <-inner
	if dOuter < 0 || dOuter > 250*time.Millisecond || dInner > 250*time.Millisecond {
		return wRes{Scenario: name, Ok: false, What: fmt.Sprintf("a Send made while Stop was waiting for an in-flight job did not return promptly (outside %v, from the job %v; -1 = not within 500ms)", dOuter, dInner)}
	}
	return wRes{Scenario: name, Ok: true}
}

func TestVerifC16(t *testing.T) {
	out := os.Getenv("VERIF_OUT")
	if out == "" {
		t.Skip("VERIF_OUT not set")
	}
	seed, _ := strconv.ParseUint(os.Getenv("VERIF_SEED"), 10, 64)
	thorough := os.Getenv("VERIF_TIER") == "thorough"
	only := os.Getenv("VERIF_SCENARIO")
	f, _ := os.Create(filepath.Join(out, "c16.runs.jsonl"))
	enc := json.NewEncoder(f)
	flush := func(r wRes) { enc.Encode(r); f.Sync() }
	n := 0
	if only == "" || only == "handoff" {
		reps := 3
		if thorough {
			reps = 20
		}
		for i := 0; i < reps; i++ {
			flush(guarded("handoff", scenarioHandoff))
			n++
		}
	}
	if only == "" || only == "restart" {
		reps := 6
		if thorough {
			reps = 40
		}
		for i := 0; i < reps; i++ {
			flush(guarded("restart", func() wRes { return scenarioRestart(i%2 == 0) }))
			n++
		}
	}
	if only == "" || only == "orders" {
		for _, r := range scenarioOrders() {
			flush(r)
			n++
		}
	}
	if only == "" || only == "stress" {
		reps := 10
		if thorough {
			reps = 150
		}
		for i := 0; i < reps; i++ {
			flush(guarded("stress", func() wRes { return scenarioStress(seed+uint64(i), 2+i%5, 20+i%30, 1+i%3) }))
			n++
		}
	}
	if only == "" || only == "sendercancel" {
		reps := 1
		if thorough {
			reps = 10
		}
		for i := 0; i < reps; i++ {
			for _, w := range []int{1, 2, 3} {
				for _, q := range []bool{false, true} {
					flush(guarded("sendercancel", func() wRes { return scenarioSenderCancel(w, q) }))
					n++
				}
			}
		}
	}
	if only == "" || only == "endedctx" {
		for _, w := range []int{1, 3} {
			flush(guarded("endedctx", func() wRes { return scenarioEndedCtxSend(w) }))
			n++
		}
	}
	if only == "" || only == "sendduringstop" {
		reps := 2
		if thorough {
			reps = 20
		}
		for i := 0; i < reps; i++ {
			flush(guarded("sendduringstop", scenarioSendDuringStop))
			n++
		}
	}
	if only == "" || only == "sendstop" {
		d := 300 * time.Millisecond
		if thorough {
			d = 3 * time.Second
		}
		flush(guarded("sendstop", func() wRes { return scenarioSendVsStop(d) }))
		n++
	}
	if only == "" || only == "stopwait" {
		reps := 3
		if thorough {
			reps = 30
		}
		for i := 0; i < reps; i++ {
			flush(guarded("stopwait", scenarioStopWait))
			n++
		}
	}
	if only == "" || only == "stop2" {
		// last: an unrecoverable runtime fault here kills the process; everything else is on disk
		flush(wRes{Scenario: "stop2-begin", Ok: true})
		rounds := 200
		if thorough {
			rounds = 3000
		}
		flush(guarded("stop2", func() wRes { return scenarioStop2(rounds) }))
		n++
	}
	f.Close()
	os.WriteFile(filepath.Join(out, "c16.stats.json"), []byte(fmt.Sprintf(`{"runs": %d}`, n)), 0o644)
}
