package core

// Harness-owned file, injected with `go test -overlay` (never committed to /repo).
// C18 correspondence: drives the real per-key store (Transaction/file/List/Node/Pool) with
// op scripts and prints one canonical answer per op; the Lean driver answers the same script.

import (
	"bufio"
	"encoding/json"
	"fmt"
	"os"
	"path/filepath"
	"strconv"
	"strings"
	"testing"

	"github.com/glebziz/fs_db/internal/model"
	"github.com/glebziz/fs_db/internal/model/sequence"
)

type vfRng struct{ s uint64 }

func (r *vfRng) next() uint64 {
	r.s += 0x9e3779b97f4a7c15
	z := r.s
	z = (z ^ (z >> 30)) * 0xbf58476d1ce4e5b9
	z = (z ^ (z >> 27)) * 0x94d049bb133111eb
	return z ^ (z >> 31)
}
func (r *vfRng) n(k int) int { return int(r.next() % uint64(k)) }

type vfImpl struct {
	tx   *Transaction
	pool Pool[Node[model.File]]
}

func (h *vfImpl) reset(ws bool) {
	h.tx = &Transaction{WithoutSearch: ws}
}

func showV(f model.File) string {
	if f.Seq.Zero() {
		return "-"
	}
	return strconv.FormatUint(uint64(f.Seq), 10)
}

func (h *vfImpl) file() *file { return h.tx.File("k") }

func (h *vfImpl) exec(args []string) string {
	switch args[0] {
	case "new":
		h.reset(args[1] == "1")
		return "ok"
	case "push":
		s, _ := strconv.ParseUint(args[1], 10, 64)
		n := h.pool.Acquire().SetV(model.File{Key: "k", ContentId: args[1], Seq: sequence.Seq(s)})
		h.tx.PushBack(n)
		return "ok"
	case "popf":
		n := h.file().PopFront()
		v := n.V()
		if n != nil {
			h.pool.Release(n)
		}
		return showV(v)
	case "popb":
		n := h.file().PopBack()
		v := n.V()
		if n != nil {
			h.pool.Release(n)
		}
		return showV(v)
	case "latest":
		return showV(h.file().Latest())
	case "lb":
		s, _ := strconv.ParseUint(args[1], 10, 64)
		return showV(h.file().LastBefore(sequence.Seq(s)))
	case "collect":
		s, _ := strconv.ParseUint(args[1], 10, 64)
		f := h.file()
		var out []string
		// exactly the loop of usecase/core.DeleteOld
		for fl := range f.IterateBeforeSeq(sequence.Seq(s)) {
			out = append(out, showV(fl))
			n := f.PopFront()
			h.pool.Release(n)
		}
		return "[" + strings.Join(out, ",") + "]"
	case "dump":
		f := h.file()
		var l, a []string
		if f != nil && !f.l.IsEmpty() {
			for n := f.l.Front(); n != &f.l.root; n = n.next {
				l = append(l, showV(n.v))
			}
		}
		as := "-"
		if f == nil || !f.withoutSearch {
			if f != nil {
				for _, n := range f.arr {
					a = append(a, showV(n.v))
				}
			}
			as = "[" + strings.Join(a, ",") + "]"
		}
		return "[" + strings.Join(l, ",") + "] " + as
	}
	return "bad-op"
}

func TestVerifC18(t *testing.T) {
	out := os.Getenv("VERIF_OUT")
	if out == "" {
		t.Skip("VERIF_OUT not set")
	}
	seed, _ := strconv.ParseUint(os.Getenv("VERIF_SEED"), 10, 64)
	thorough := os.Getenv("VERIF_TIER") == "thorough"

	opsF, _ := os.Create(filepath.Join(out, "c18.ops"))
	implF, _ := os.Create(filepath.Join(out, "c18.impl"))
	ops := bufio.NewWriterSize(opsF, 1<<20)
	impl := bufio.NewWriterSize(implF, 1<<20)
	h := &vfImpl{}
	h.reset(false)
	h.tx.PushBack(h.pool.Acquire().SetV(model.File{Key: "k", Seq: 1})) // make File("k") exist
	h.file().PopBack()

	counts := map[string]int{}
	lines := 0
	do := func(format string, a ...any) string {
		line := fmt.Sprintf(format, a...)
		args := strings.Fields(line)
		counts[args[0]]++
		lines++
		fmt.Fprintln(ops, "vf "+line)
		r := h.exec(args)
		fmt.Fprintln(impl, r)
		return r
	}
	rebuild := func(ws bool, seqs []int) {
		// new store, but keep the node pool: nodes are recycled as in the use case
		for f := h.file(); f != nil && !f.l.IsEmpty(); {
			h.pool.Release(f.PopFront())
		}
		if ws {
			do("new 1")
		} else {
			do("new 0")
		}
		for _, s := range seqs {
			do("push %d", s)
		}
	}

	// --- exhaustive part: all subsets of a D-element domain x all probes x all horizons
	D := 9
	if thorough {
		D = 12
	}
	subsets, nontrivial := 0, 0
	for mask := 0; mask < 1<<D; mask++ {
		var seqs []int
		for i := 0; i < D; i++ {
			if mask&(1<<i) != 0 {
				seqs = append(seqs, 2*i+2) // even numbers 2..2D; odd probes fall between versions
			}
		}
		subsets++
		if len(seqs) >= 2 {
			nontrivial++
		}
		rebuild(false, seqs)
		do("latest")
		for s := 0; s <= 2*D+2; s++ {
			do("lb %d", s)
		}
		for hz := 0; hz <= 2*D+2; hz++ {
			if hz > 0 {
				rebuild(false, seqs)
			}
			do("collect %d", hz)
			do("dump")
			for s := hz; s <= 2*D+2; s++ {
				do("lb %d", s)
			}
		}
	}

	// --- random part: long lists, interleaved op sequences
	rng := &vfRng{s: seed*7919 + 17}
	scripts := 300
	maxLen := 400
	if thorough {
		scripts = 3000
		maxLen = 5000
	}
	longest := 0
	for i := 0; i < scripts; i++ {
		ws := rng.n(8) == 0
		rebuild(ws, nil)
		next := 1 + rng.n(3)
		size := 0
		target := 1 + rng.n(maxLen)
		if i%10 != 0 {
			target = 1 + rng.n(40)
		}
		for j := 0; j < target; j++ {
			do("push %d", next)
			next += 1 + rng.n(3)
			size++
		}
		if size > longest {
			longest = size
		}
		nops := 200
		for j := 0; j < nops; j++ {
			switch rng.n(10) {
			case 0, 1:
				do("push %d", next)
				next += 1 + rng.n(3)
			case 2:
				do("popf")
			case 3:
				do("popb")
			case 4:
				if !ws {
					do("collect %d", rng.n(next+2))
				}
			case 5:
				do("latest")
			case 6:
				do("dump")
			default:
				if !ws {
					do("lb %d", rng.n(next+3))
				}
			}
		}
		do("dump")
	}

	ops.Flush()
	impl.Flush()
	opsF.Close()
	implF.Close()
	st := map[string]any{
		"lines": lines, "ops_by_kind": counts, "exhaustive_domain": D, "subsets": subsets,
		"subsets_nontrivial": nontrivial, "random_scripts": scripts, "longest_list": longest,
	}
	b, _ := json.MarshalIndent(st, "", " ")
	os.WriteFile(filepath.Join(out, "c18.stats.json"), b, 0o644)
}
