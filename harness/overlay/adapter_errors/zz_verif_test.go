package errors

// Harness-owned (overlay). C11 (a): every subset of the exported sentinels, under several wrappings,
// through Error -> protobuf marshal/unmarshal of the status -> ClientError; the class observed by
// errors.Is is compared with the Lean model `Wire.roundTrip`.

import (
	"bufio"
	stderrors "errors"
	"fmt"
	"os"
	"path/filepath"
	"testing"

	spb "google.golang.org/genproto/googleapis/rpc/status"
	"google.golang.org/grpc/codes"
	"google.golang.org/grpc/status"
	"google.golang.org/protobuf/proto"

	"github.com/glebziz/fs_db"
)

var c11sentinels = []error{fs_db.ErrUnknown, fs_db.ErrNoFreeSpace, fs_db.ErrNotFound, fs_db.ErrEmptyKey,
	fs_db.ErrHeaderNotFound, fs_db.ErrTxNotFound, fs_db.ErrTxAlreadyExists, fs_db.ErrTxSerialization}
var c11names = []string{"unknown", "noFreeSpace", "notFound", "emptyKey", "headerNotFound", "txNotFound", "txAlreadyExists", "txSerialization"}

type isErr struct{ set []error }

func (e isErr) Error() string { return "custom" }
func (e isErr) Is(t error) bool {
	for _, s := range e.set {
		if s == t {
			return true
		}
	}
	return false
}

func c11build(mask, kind int) error {
	var set []error
	for i, s := range c11sentinels {
		if mask&(1<<i) != 0 {
			set = append(set, s)
		}
	}
	var err error
	switch kind {
	case 0:
		err = stderrors.Join(set...)
		if err == nil {
			err = stderrors.New("plain")
		}
	case 1:
		err = stderrors.New("plain")
		for _, s := range set {
			err = fmt.Errorf("layer: %w: %w", err, s)
		}
	case 2:
		err = fmt.Errorf("wrapped twice: %w", fmt.Errorf("inner: %w", isErr{set}))
	}
	return err
}

func c11class(err error) string {
	n, first := 0, "none"
	for i, s := range c11sentinels {
		if stderrors.Is(err, s) {
			if n == 0 {
				first = c11names[i]
			}
			n++
		}
	}
	return fmt.Sprintf("%s/%d", first, n)
}

func TestVerifC11Errors(t *testing.T) {
	out := os.Getenv("VERIF_OUT")
	if out == "" {
		t.Skip("VERIF_OUT not set")
	}
	opsF, _ := os.Create(filepath.Join(out, "c11e.ops"))
	implF, _ := os.Create(filepath.Join(out, "c11e.impl"))
	ops, impl := bufio.NewWriter(opsF), bufio.NewWriter(implF)
	lines := 0
	for mask := 0; mask < 256; mask++ {
		for kind := 0; kind < 3; kind++ {
			fmt.Fprintf(ops, "errmap %d\n", mask)
			res := func() (r string) {
				defer func() {
					if p := recover(); p != nil {
						r = "panic"
					}
				}()
				srv := Error(c11build(mask, kind))
				// the wire: status -> proto bytes -> status
				b, err := proto.Marshal(status.Convert(srv).Proto())
				if err != nil {
					return "marshal-error"
				}
				var p spb.Status
				if err = proto.Unmarshal(b, &p); err != nil {
					return "unmarshal-error"
				}
				return c11class(ClientError(status.FromProto(&p).Err()))
			}()
			fmt.Fprintln(impl, res)
			lines++
		}
	}
	// statuses produced by gRPC itself (no details): code only
	for _, c := range []codes.Code{codes.InvalidArgument, codes.NotFound, codes.AlreadyExists, codes.ResourceExhausted,
		codes.FailedPrecondition, codes.Aborted, codes.Internal, codes.Unavailable, codes.Canceled, codes.DeadlineExceeded, codes.Unknown} {
		fmt.Fprintf(ops, "errcode %d\n", int(c))
		fmt.Fprintln(impl, c11class(ClientError(status.New(c, "x").Err())))
		lines++
	}
	ops.Flush()
	impl.Flush()
	opsF.Close()
	implF.Close()
	os.WriteFile(filepath.Join(out, "c11e.stats.json"), []byte(fmt.Sprintf(`{"lines": %d}`, lines)), 0o644)
}
