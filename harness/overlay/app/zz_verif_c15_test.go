package app

// Harness-owned (overlay). C15, server side: several gRPC clients (one connection, many goroutines)
// against a real server in this process, meant to be run with the race detector: the server's
// handler goroutines, worker pool and collector share one dependency container.

import (
	"bytes"
	"fmt"
	"os"
	"path/filepath"
	"strconv"
	"sync"
	"testing"

	"github.com/glebziz/fs_db"
	"github.com/glebziz/fs_db/internal/model"
)

func TestVerifC15Grpc(t *testing.T) {
	out := os.Getenv("VERIF_OUT")
	if out == "" {
		t.Skip("VERIF_OUT not set")
	}
	rounds, _ := strconv.Atoi(os.Getenv("VERIF_ROUNDS"))
	if rounds == 0 {
		rounds = 3
	}
	ops := 0
	for r := 0; r < rounds; r++ {
		dir := filepath.Join(out, fmt.Sprintf("c15g-%d", r))
		os.RemoveAll(dir)
		g := newGImpl(dir, 2)
		if err := g.open(); err != nil {
			t.Fatal(err)
		}
		var wg sync.WaitGroup
		start := make(chan struct{})
		worker := func(id int) {
			defer wg.Done()
			<-start
			ctx := g.ctx
			for i := 0; i < 15; i++ {
				k := fmt.Sprintf("k%d", (id+i)%4)
				switch (id + i) % 7 {
				case 0:
					g.cl.Set(ctx, k, []byte(fmt.Sprint(id, i)))
				case 1:
					g.cl.Get(ctx, k)
				case 2:
					g.cl.GetKeys(ctx)
				case 3:
					tx, err := g.cl.Begin(ctx, fs_db.IsoLevelReadUncommitted+model.TxIsoLevel((id+i)%4))
					if err == nil {
						tx.Set(ctx, k, []byte("t"))
						tx.Get(ctx, k)
						tx.GetKeys(ctx)
						if i%2 == 0 {
							tx.Commit(ctx)
						} else {
							tx.Rollback(ctx)
						}
					}
				case 4:
					g.cl.Delete(ctx, k)
				case 5:
					w, err := g.cl.Create(ctx, k)
					if err == nil {
						w.Write(bytes.Repeat([]byte("a"), 3000))
						w.Write(nil)
						w.Write([]byte("def"))
						w.Close()
					}
				case 6:
					g.cl.SetReader(ctx, k, bytes.NewReader(bytes.Repeat([]byte("r"), 5000)))
					if rd, err := g.cl.GetReader(ctx, k); err == nil {
						rd.Close()
					}
				}
			}
		}
		n := 6
		for id := 0; id < n; id++ {
			wg.Add(1)
			go worker(id + r)
		}
		// the collector runs alongside, as the scheduled job does in production
		wg.Add(1)
		go func() {
			defer wg.Done()
			<-start
			for i := 0; i < 5; i++ {
				g.a.container.Cleaner().DeleteOld(g.ctx)
			}
		}()
		close(start)
		wg.Wait()
		ops += n * 15
		gDrain()
		g.close()
		os.RemoveAll(dir)
	}
	os.WriteFile(filepath.Join(out, "c15g.stats.json"), []byte(fmt.Sprintf(`{"rounds": %d, "ops": %d}`, rounds, ops)), 0o644)
}
