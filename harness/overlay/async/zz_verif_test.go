package async

// Harness-owned (overlay). C12: enforced-schedule exploration of the real readWriter with a writer
// goroutine (Write* then Close) and a storing goroutine (io.Copy-like loop of Read until EOF).
// Yield points: every operation boundary and the verif hook points rd.beforeWait / cl.start.
// Oracle: Close returns (no hang), and if it returns nil the storer consumed exactly the
// concatenation of all writes.

import (
	"bytes"
	"encoding/json"
	"fmt"
	"io"
	"os"
	"path/filepath"
	"runtime"
	"strconv"
	"strings"
	"sync"
	"testing"
	"time"

	"github.com/glebziz/fs_db/internal/verifhook"
)

func agoid() int64 {
	var buf [64]byte
	n := runtime.Stack(buf[:], false)
	f := strings.Fields(string(buf[:n]))
	id, _ := strconv.ParseInt(f[1], 10, 64)
	return id
}

type aActor struct {
	name    string
	events  chan string
	resume  chan struct{}
	done    bool
	blocked bool
	pending string
}

type aSched struct {
	mu    sync.Mutex
	byGid map[int64]*aActor
	trace []string
}

func (s *aSched) yield(point string) {
	g := agoid()
	s.mu.Lock()
	a := s.byGid[g]
	s.mu.Unlock()
	if a == nil {
		return
	}
	a.events <- "park:" + point
	<-a.resume
}

type aRun struct {
	Script   []int    `json:"script"`
	Sched    []string `json:"sched"`
	Trace    []string `json:"trace"`
	Hang     bool     `json:"hang"`
	CloseErr string   `json:"close_err"`
	Consumed int      `json:"consumed"`
	Expected int      `json:"expected"`
	Equal    bool     `json:"equal"`
	Choices  [][]string `json:"choices"`
	Stacks   string   `json:"stacks,omitempty"`
}

const aStepTimeout = 25 * time.Millisecond

func runAsync(script []int, schedule []string) aRun {
	run := aRun{Script: script}
	rw := NewReadWriter()
	rw.Add(1)
	var want, got bytes.Buffer
	s := &aSched{byGid: map[int64]*aActor{}}
	W := &aActor{name: "W", events: make(chan string, 4), resume: make(chan struct{})}
	S := &aActor{name: "S", events: make(chan string, 4), resume: make(chan struct{})}
	actors := []*aActor{W, S}
	verifhook.SetAnyPoint(func(name string) { s.yield(name) })
	defer verifhook.SetAnyPoint(nil)
	var closeErr error
	log := func(f string, a ...any) {
		s.mu.Lock()
		s.trace = append(s.trace, fmt.Sprintf(f, a...))
		s.mu.Unlock()
	}
	start := func(a *aActor, body func()) {
		started := make(chan struct{})
		go func() {
			s.mu.Lock()
			s.byGid[agoid()] = a
			s.mu.Unlock()
			close(started)
			body()
			a.events <- "done"
		}()
		<-started
	}
	start(W, func() {
		for i, n := range script {
			s.yield(fmt.Sprintf("op:write%d", i))
			p := bytes.Repeat([]byte{byte('a' + i%26)}, n)
			if n == 0 {
				p = nil
			}
			want.Write(p)
			_, err := rw.Write(p)
			// io.Writer: "Write must not retain p": the caller reuses its buffer (io.Copy, bufio do)
			for j := range p {
				p[j] = 0xEE
			}
			log("ret W write(%d) err=%v", n, err)
		}
		s.yield("op:close")
		closeErr = rw.Close()
		log("ret W close err=%v", closeErr)
	})
	start(S, func() {
		defer rw.Done()
		buf := make([]byte, 32*1024)
		for {
			s.yield("op:read")
			n, err := rw.Read(buf)
			got.Write(buf[:n])
			log("ret S read n=%d err=%v", n, err)
			if err == io.EOF {
				return
			}
			if err != nil {
				rw.SetError(err)
				return
			}
		}
	})
	by := map[string]*aActor{"W": W, "S": S}
	for _, a := range actors {
		a.pending = <-a.events
	}
	enabled := func() []string {
		var e []string
		for _, a := range actors {
			if a.done {
				continue
			}
			if a.blocked {
				select {
				case ev := <-a.events:
					a.pending, a.blocked = ev, false
				default:
					continue
				}
			}
			if a.pending == "done" {
				a.done = true
				continue
			}
			e = append(e, a.name)
		}
		return e
	}
	step := func(name string) {
		a := by[name]
		log("step %s from %s", name, strings.TrimPrefix(a.pending, "park:"))
		a.pending = ""
		a.resume <- struct{}{}
		select {
		case ev := <-a.events:
			if ev == "done" {
				a.done = true
			} else {
				a.pending = ev
			}
		case <-time.After(aStepTimeout):
			a.blocked = true
			log("blocked %s", name)
		}
	}
	i := 0
	for {
		en := enabled()
		if len(en) == 0 {
			if W.done && S.done {
				break
			}
			deadline := time.Now().Add(1500 * time.Millisecond)
			for len(en) == 0 && time.Now().Before(deadline) && !(W.done && S.done) {
				time.Sleep(time.Millisecond)
				en = enabled()
			}
			if W.done && S.done {
				break
			}
			if len(en) == 0 {
				run.Hang = true
				b := make([]byte, 1<<15)
				run.Stacks = string(b[:runtime.Stack(b, true)])
				break
			}
		}
		run.Choices = append(run.Choices, en)
		pick := en[0]
		if i < len(schedule) {
			for _, e := range en {
				if e == schedule[i] {
					pick = e
				}
			}
		}
		run.Sched = append(run.Sched, pick)
		step(pick)
		i++
	}
	s.mu.Lock()
	run.Trace = s.trace
	s.mu.Unlock()
	if closeErr != nil {
		run.CloseErr = closeErr.Error()
	}
	run.Consumed, run.Expected = got.Len(), want.Len()
	run.Equal = bytes.Equal(got.Bytes(), want.Bytes())
	return run
}

func TestVerifC12(t *testing.T) {
	out := os.Getenv("VERIF_OUT")
	if out == "" {
		t.Skip("VERIF_OUT not set")
	}
	maxRuns, _ := strconv.Atoi(os.Getenv("VERIF_MAXRUNS"))
	if maxRuns == 0 {
		maxRuns = 60
	}
	f, _ := os.Create(filepath.Join(out, "c12.runs.jsonl"))
	defer f.Close()
	enc := json.NewEncoder(f)
	scripts := [][]int{{}, {3}, {0}, {3, 0, 3}, {1, 32767, 0, 32769}, {0, 0}, {32768, 1}, {5, 0}}
	total := 0
	if fs := os.Getenv("VERIF_SCHEDULES"); fs != "" {
		// "3,0,3:W,W,S,...;..."
		for _, part := range strings.Split(fs, ";") {
			p := strings.SplitN(part, ":", 2)
			var sc []int
			for _, x := range strings.Split(p[0], ",") {
				if x != "" {
					n, _ := strconv.Atoi(x)
					sc = append(sc, n)
				}
			}
			enc.Encode(runAsync(sc, strings.Split(p[1], ",")))
			total++
		}
	} else {
		for _, sc := range scripts {
			stack := [][]string{nil}
			seen := map[string]bool{}
			runs := 0
			for len(stack) > 0 && runs < maxRuns {
				pre := stack[len(stack)-1]
				stack = stack[:len(stack)-1]
				key := strings.Join(pre, ",")
				if seen[key] {
					continue
				}
				seen[key] = true
				r := runAsync(sc, pre)
				enc.Encode(r)
				runs++
				total++
				for d := len(pre); d < len(r.Sched) && d < len(r.Choices); d++ {
					for _, alt := range r.Choices[d] {
						if alt != r.Sched[d] {
							np := append(append([]string(nil), r.Sched[:d]...), alt)
							if !seen[strings.Join(np, ",")] {
								stack = append(stack, np)
							}
						}
					}
				}
			}
		}
	}
	os.WriteFile(filepath.Join(out, "c12.stats.json"), []byte(fmt.Sprintf(`{"runs": %d}`, total)), 0o644)
}


// free-running writer and storing goroutine (no scheduler): content must equal the concatenation.
// Run with -race in the thorough tier / after a broken tie.
func TestVerifC12Stress(t *testing.T) {
	out := os.Getenv("VERIF_OUT")
	if out == "" {
		t.Skip("VERIF_OUT not set")
	}
	rounds, _ := strconv.Atoi(os.Getenv("VERIF_ROUNDS"))
	if rounds == 0 {
		rounds = 60
	}
	seed, _ := strconv.ParseUint(os.Getenv("VERIF_SEED"), 10, 64)
	x := seed*2654435761 + 12345
	rnd := func(n int) int { x ^= x << 13; x ^= x >> 7; x ^= x << 17; return int(x % uint64(n)) }
	type res struct {
		Round, Writes, Want, Got int
		FirstDiff                int
		Ok                       bool
	}
	var bad []res
	sizes := []int{0, 1, 100, 4096, 16 * 1024, 32*1024 - 1, 32 * 1024, 32*1024 + 1, 64 * 1024}
	total := 0
	for r := 0; r < rounds; r++ {
		rw := NewReadWriter()
		rw.Add(1)
		var got bytes.Buffer
		taken := make(chan int, 1024)
		go func() {
			defer rw.Done()
			buf := make([]byte, 32*1024)
			for {
				n, err := rw.Read(buf)
				got.Write(buf[:n])
				select {
				case taken <- n:
				default:
				}
				if err != nil {
					return
				}
			}
		}()
		var want bytes.Buffer
		nw := 20 + rnd(60)
		mode := r % 3 // 0: equal 32 KiB pieces paced with the storing side, 1: random sizes, 2: bursts
		for i := 0; i < nw; i++ {
			n := sizes[rnd(len(sizes))]
			if mode == 0 {
				n = 32 * 1024
			}
			p := make([]byte, n)
			for j := range p {
				p[j] = byte(i + j)
			}
			want.Write(p)
			rw.Write(p)
			for j := range p { // the caller's buffer is the caller's again once Write has returned
				p[j] = 0xEE
			}
			if mode == 0 {
				select { // wait until the storing side has taken something: writer exactly as fast as the reader
				case <-taken:
				case <-time.After(2 * time.Millisecond):
				}
			} else if mode == 2 && rnd(4) == 0 {
				runtime.Gosched()
			}
		}
		done := make(chan error, 1)
		go func() { done <- rw.Close() }()
		select {
		case <-done:
		case <-time.After(5 * time.Second):
			bad = append(bad, res{Round: r, Writes: nw, Want: want.Len(), Got: -1})
			continue
		}
		total++
		if !bytes.Equal(got.Bytes(), want.Bytes()) {
			fd := 0
			for fd < got.Len() && fd < want.Len() && got.Bytes()[fd] == want.Bytes()[fd] {
				fd++
			}
			bad = append(bad, res{Round: r, Writes: nw, Want: want.Len(), Got: got.Len(), FirstDiff: fd})
		}
	}
	// the storing side fails after it has consumed some bytes while the writer is (far) ahead: some Write
	// or Close must report the error, and Close must return
	failBad := []string{}
	failRounds := 0
	for _, ahead := range []int{0, 1000, 40000, 200000, 1 << 20} {
		for _, failAfter := range []int{0, 1, 32768, 70000} {
			failRounds++
			rw := NewReadWriter()
			rw.Add(1)
			errStore := fmt.Errorf("injected store failure")
			started := make(chan struct{})
			go func() {
				defer rw.Done()
				close(started)
				buf := make([]byte, 32*1024)
				consumed := 0
				for consumed < failAfter || failAfter == 0 {
					if failAfter == 0 {
						break
					}
					n, err := rw.Read(buf)
					consumed += n
					if err != nil {
						return
					}
				}
				rw.SetError(errStore)
			}()
			<-started
			res := make(chan error, 1)
			go func() {
				var first error
				chunk := make([]byte, failAfter+ahead+1)
				if _, err := rw.Write(chunk); err != nil && first == nil {
					first = err
				}
				for i := 0; i < 3; i++ {
					if _, err := rw.Write([]byte("more")); err != nil && first == nil {
						first = err
					}
				}
				if err := rw.Close(); err != nil && first == nil {
					first = err
				}
				res <- first
			}()
			select {
			case err := <-res:
				if err == nil {
					failBad = append(failBad, fmt.Sprintf("storing side failed after %d bytes with the writer %d bytes ahead: every Write and Close returned nil", failAfter, ahead))
				}
			case <-time.After(5 * time.Second):
				failBad = append(failBad, fmt.Sprintf("storing side failed after %d bytes with the writer %d bytes ahead: Write/Close never returned", failAfter, ahead))
			}
		}
	}
	b, _ := json.Marshal(map[string]any{"rounds": rounds, "completed": total, "bad": bad, "store_failure_rounds": failRounds, "store_failure_bad": failBad})
	os.WriteFile(filepath.Join(out, "c12.stress.json"), b, 0o644)
}
