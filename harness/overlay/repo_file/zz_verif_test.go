package file

// Harness-owned (overlay). C19 correspondence: real marshal/unmarshal through Repo.Set / Repo.GetAll
// (with a recording key-value provider) vs the Lean codec model.

import (
	"bufio"
	"context"
	"encoding/hex"
	"encoding/json"
	"fmt"
	"os"
	"path/filepath"
	"strconv"
	"strings"
	"testing"

	"github.com/google/uuid"

	"github.com/glebziz/fs_db/internal/db/badger"
	"github.com/glebziz/fs_db/internal/model"
	"github.com/glebziz/fs_db/internal/model/sequence"
	"github.com/glebziz/fs_db/internal/model/transactor"
)

type recProvider struct {
	lastKey, lastVal []byte
	items            []badger.Item
	// inside a transaction Badger keeps a REFERENCE to the key and value slices until the commit
	// ("users must not modify or reuse the key and val until the end of the transaction")
	retain bool
	kept   [][2][]byte
}

func (p *recProvider) RunTransaction(ctx context.Context, fn transactor.TransactionFn) error {
	return fn(ctx)
}
func (p *recProvider) DB(context.Context) badger.QueryManager { return p }
func (p *recProvider) Set(k, v []byte) error {
	p.lastKey, p.lastVal = append([]byte(nil), k...), append([]byte(nil), v...)
	if p.retain {
		p.kept = append(p.kept, [2][]byte{k, v})
	}
	return nil
}
func (p *recProvider) GetAll(prefix []byte) ([]badger.Item, error) { return p.items, nil }
func (p *recProvider) Get([]byte) ([]byte, error)                  { return nil, nil }
func (p *recProvider) Delete([]byte) error                         { return nil }

type c19rng struct{ s uint64 }

func (r *c19rng) next() uint64 {
	r.s += 0x9e3779b97f4a7c15
	z := r.s
	z = (z ^ (z >> 30)) * 0xbf58476d1ce4e5b9
	z = (z ^ (z >> 27)) * 0x94d049bb133111eb
	return z ^ (z >> 31)
}
func (r *c19rng) n(k int) int { return int(r.next() % uint64(k)) }
func (r *c19rng) bytes(n int) []byte {
	b := make([]byte, n)
	for i := range b {
		switch r.n(6) {
		case 0:
			b[i] = 0
		case 1:
			b[i] = 0xff
		default:
			b[i] = byte(r.next())
		}
	}
	return b
}

func hexOrDash(b []byte) string {
	if len(b) == 0 {
		return "-"
	}
	return hex.EncodeToString(b)
}

func TestVerifC19(t *testing.T) {
	out := os.Getenv("VERIF_OUT")
	if out == "" {
		t.Skip("VERIF_OUT not set")
	}
	seed, _ := strconv.ParseUint(os.Getenv("VERIF_SEED"), 10, 64)
	thorough := os.Getenv("VERIF_TIER") == "thorough"
	opsF, _ := os.Create(filepath.Join(out, "c19.ops"))
	implF, _ := os.Create(filepath.Join(out, "c19.impl"))
	ops, impl := bufio.NewWriterSize(opsF, 1<<20), bufio.NewWriterSize(implF, 1<<20)
	p := &recProvider{}
	repo := New(p)
	ctx := context.Background()
	counts := map[string]int{}
	lines := 0

	enc := func(seq uint64, tx, cid, key []byte) {
		lines++
		counts["enc"]++
		fmt.Fprintf(ops, "enc %d %s %s %s\n", seq, hex.EncodeToString(tx), hex.EncodeToString(cid), hexOrDash(key))
		var txu, cidu uuid.UUID
		copy(txu[:], tx)
		copy(cidu[:], cid)
		res := func() (res string) {
			defer func() {
				if r := recover(); r != nil {
					res = "panic"
				}
			}()
			err := repo.Set(ctx, model.File{Key: string(key), TxId: txu.String(), ContentId: cidu.String(), Seq: sequence.Seq(seq)})
			if err != nil {
				return "err"
			}
			return string(p.lastKey) + " " + hex.EncodeToString(p.lastVal)
		}()
		fmt.Fprintln(impl, res)
	}
	// several records written in ONE metadata transaction (a Commit's batch): what reaches the store
	// at the commit — the slices handed over, read when the transaction ends — must be each record's encoding
	encBatch := func(recs [][4][]byte) {
		p.retain, p.kept = true, nil
		errs := make([]bool, len(recs))
		for i, r := range recs {
			var txu, cidu uuid.UUID
			copy(txu[:], r[1])
			copy(cidu[:], r[2])
			seq := uint64(i + 1)
			if len(r[0]) == 8 {
				seq = 0
				for _, b := range r[0] {
					seq = seq<<8 | uint64(b)
				}
			}
			fmt.Fprintf(ops, "enc %d %s %s %s\n", seq, hex.EncodeToString(r[1]), hex.EncodeToString(r[2]), hexOrDash(r[3]))
			lines++
			counts["enc_batch"]++
			before := len(p.kept)
			err := repo.Set(ctx, model.File{Key: string(r[3]), TxId: txu.String(), ContentId: cidu.String(), Seq: sequence.Seq(seq)})
			errs[i] = err != nil || len(p.kept) != before+1
		}
		j := 0
		for i := range recs {
			if errs[i] {
				fmt.Fprintln(impl, "err")
				continue
			}
			fmt.Fprintln(impl, string(p.kept[j][0])+" "+hex.EncodeToString(p.kept[j][1]))
			j++
		}
		p.retain, p.kept = false, nil
	}
	dec := func(data []byte) {
		lines++
		counts[fmt.Sprintf("dec_len_%s", map[bool]string{true: "lt40", false: "ge40"}[len(data) < 40])]++
		fmt.Fprintf(ops, "dec %s\n", hexOrDash(data))
		res := func() (res string) {
			defer func() {
				if r := recover(); r != nil {
					res = "panic"
				}
			}()
			p.items = []badger.Item{{Key: []byte("file/x"), Value: data}}
			fs, err := repo.GetAll(ctx)
			if err != nil {
				return "err"
			}
			f := fs[0]
			return fmt.Sprintf("%d %s %s %s", uint64(f.Seq), f.TxId, f.ContentId, hexOrDash([]byte(f.Key)))
		}()
		fmt.Fprintln(impl, res)
	}

	dec2 := func(a, b []byte) {
		lines++
		counts["dec2"]++
		fmt.Fprintf(ops, "dec2 %s %s\n", hexOrDash(a), hexOrDash(b))
		res := func() (res string) {
			defer func() {
				if r := recover(); r != nil {
					res = "panic"
				}
			}()
			p.items = []badger.Item{{Key: []byte("file/x"), Value: a}, {Key: []byte("file/y"), Value: b}}
			fs, err := repo.GetAll(ctx)
			if err != nil {
				return "err"
			}
			var out []string
			for _, f := range fs {
				out = append(out, fmt.Sprintf("%d %s %s %s", uint64(f.Seq), f.TxId, f.ContentId, hexOrDash([]byte(f.Key))))
			}
			return strings.Join(out, " | ")
		}()
		fmt.Fprintln(impl, res)
	}
	rng := &c19rng{s: seed*104729 + 3}
	seqs := []uint64{0, 1, 255, 256, 65535, 65536, 1<<32 - 1, 1 << 32, 1<<32 + 1, 1 << 63, 1<<63 - 1, 1<<64 - 1, 0x0102030405060708}
	zero, ff := make([]byte, 16), []byte(strings.Repeat("\xff", 16))
	// boundary records
	for _, s := range seqs {
		for _, ids := range [][2][]byte{{zero, zero}, {zero, ff}, {ff, zero}, {rng.bytes(16), rng.bytes(16)}} {
			for _, kl := range []int{0, 1, 2, 39, 40, 41, 255, 300} {
				enc(s, ids[0], ids[1], rng.bytes(kl))
			}
		}
	}
	// malformed / arbitrary byte strings of every length 0..80
	for l := 0; l <= 80; l++ {
		for j := 0; j < 6; j++ {
			dec(rng.bytes(l))
		}
	}
	// several records in one GetAll: each record decodes independently of its neighbours
	for i := 0; i < 60; i++ {
		mk := func(kl int) []byte {
			enc(rng.next()>>uint(rng.n(64)), rng.bytes(16), rng.bytes(16), rng.bytes(kl))
			return append([]byte(nil), p.lastVal...)
		}
		a, b := mk(rng.n(3)*rng.n(20)), mk(rng.n(3)*rng.n(20))
		dec2(a, b)
		dec2(b, a)
	}
	// batches: 2..8 records per transaction, key lengths on both sides of every plausible buffer size
	nb := 40
	if thorough {
		nb = 600
	}
	for i := 0; i < nb; i++ {
		m := 2 + rng.n(7)
		var recs [][4][]byte
		base := []int{0, 1, 8, 24, 40, 64, 88, 89, 100, 118, 128, 200, 255, 300, 1000}[rng.n(15)]
		for j := 0; j < m; j++ {
			kl := base
			if rng.n(3) == 0 {
				kl = rng.n(2 * (base + 1))
			}
			sq := make([]byte, 8)
			for b := range sq {
				sq[b] = byte(rng.next())
			}
			recs = append(recs, [4][]byte{sq, rng.bytes(16), rng.bytes(16), rng.bytes(kl)})
		}
		encBatch(recs)
	}
	n := 3000
	if thorough {
		n = 60000
	}
	for i := 0; i < n; i++ {
		switch rng.n(3) {
		case 0:
			enc(rng.next()>>uint(rng.n(64)), rng.bytes(16), rng.bytes(16), rng.bytes(rng.n(64)))
		case 1:
			dec(rng.bytes(rng.n(120)))
		default:
			// decode what the real code just encoded (round trip through the real encoder)
			enc(rng.next()>>uint(rng.n(64)), rng.bytes(16), rng.bytes(16), rng.bytes(rng.n(300)))
			dec(p.lastVal)
		}
	}
	// golden vectors committed in /verif/corpus (produced by the Lean model): the current tree must decode them alike
	if g := os.Getenv("VERIF_GOLDEN"); g != "" {
		if f, err := os.Open(g); err == nil {
			sc := bufio.NewScanner(f)
			sc.Buffer(make([]byte, 1<<20), 1<<20)
			for sc.Scan() {
				fs := strings.Fields(sc.Text())
				if len(fs) == 2 && fs[0] == "dec" {
					var b []byte
					if fs[1] != "-" {
						b, _ = hex.DecodeString(fs[1])
					}
					dec(b)
					counts["golden"]++
				}
			}
			f.Close()
		}
	}
	ops.Flush()
	impl.Flush()
	opsF.Close()
	implF.Close()
	b, _ := json.MarshalIndent(map[string]any{"lines": lines, "ops_by_kind": counts}, "", " ")
	os.WriteFile(filepath.Join(out, "c19.stats.json"), b, 0o644)
}
