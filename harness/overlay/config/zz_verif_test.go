package config

// Harness-owned (overlay). C20 correspondence: real ParseConfig + Storage.Valid on generated
// layer combinations (temp YAML file + process environment) vs the Lean Config model.

import (
	"bufio"
	"encoding/json"
	"errors"
	"fmt"
	"os"
	"path/filepath"
	"reflect"
	"runtime"
	"strconv"
	"strings"
	"testing"
	"time"

	"github.com/glebziz/fs_db"
)

type c20rng struct{ s uint64 }

func (r *c20rng) next() uint64 {
	r.s += 0x9e3779b97f4a7c15
	z := r.s
	z = (z ^ (z >> 30)) * 0xbf58476d1ce4e5b9
	z = (z ^ (z >> 27)) * 0x94d049bb133111eb
	return z ^ (z >> 31)
}
func (r *c20rng) n(k int) int { return int(r.next() % uint64(k)) }

var c20env = []string{envPort, envDbPath, envDirCount, envRootDirs, envGCPeriod, envNumWorkers, envSendDuration}
var c20envVal = []string{"7002", "edb", "200", "er1", "3m", "4", "7ms"}
var c20envZero = []string{"0", "", "0", "", "0s", "0", "0s"} // a well-formed zero (numeric / duration settings only)
var c20envBad = []string{"abc", "", "-1", "", "5", "1.5", "ms"}
var c20yamlKey = []string{"port", "dbPath", "maxDirCount", "rootDirs", "gcPeriod", "numWorkers", "sendDuration"}
var c20yamlVal = []string{"7001", "fdb", "50", "[fr1, fr2]", "2m", "3", "5ms"}
var c20yamlZero = []string{"0", `""`, "0", "[]", "0s", "0", "0s"}
var c20yamlBad = []string{"abc", "[1, 2]", "-5", "5", "1x", "q", "zz"}

func c20yaml(states []string) string {
	line := func(i int) string {
		switch states[i][0] {
		case 'p':
			return c20yamlKey[i] + ": " + c20yamlVal[i] + "\n"
		case 'z':
			return c20yamlKey[i] + ": " + c20yamlZero[i] + "\n"
		case 'm':
			return c20yamlKey[i] + ": " + c20yamlBad[i] + "\n"
		}
		return ""
	}
	var b strings.Builder
	b.WriteString(line(0))
	st := line(1) + line(2) + line(3) + line(4)
	if st != "" {
		b.WriteString("storage:\n")
		for _, l := range strings.Split(strings.TrimSuffix(st, "\n"), "\n") {
			b.WriteString("  " + l + "\n")
		}
	}
	wp := line(5) + line(6)
	if wp != "" {
		b.WriteString("wPool:\n")
		for _, l := range strings.Split(strings.TrimSuffix(wp, "\n"), "\n") {
			b.WriteString("  " + l + "\n")
		}
	}
	return b.String()
}

func c20tok(i int, c Config) string {
	var got, def, fv, ev, zero, clamp any
	switch i {
	case 0:
		got, def, fv, ev, zero = c.Port, defaultPort, 7001, 7002, 0
	case 1:
		got, def, fv, ev, zero = c.Storage.DbPath, defaultDbPath, "fdb", "edb", ""
	case 2:
		got, def, fv, ev, zero, clamp = c.Storage.MaxDirCount, uint64(defaultDirCount), uint64(50), uint64(200), uint64(0), uint64(100)
	case 3:
		got, def, fv, ev, zero = c.Storage.RootDirs, []string{defaultRootDir}, []string{"fr1", "fr2"}, []string{"er1"}, []string{}
	case 4:
		got, def, fv, ev, zero = c.Storage.GCPeriod, time.Minute, 2*time.Minute, 3*time.Minute, time.Duration(0)
	case 5:
		got, def, fv, ev, zero = c.WPool.NumWorkers, runtime.GOMAXPROCS(0), 3, 4, 0
	case 6:
		got, def, fv, ev, zero = c.WPool.SendDuration, time.Millisecond, 5*time.Millisecond, 7*time.Millisecond, time.Duration(0)
	}
	switch {
	case reflect.DeepEqual(got, def):
		return "D"
	case reflect.DeepEqual(got, fv):
		return "F"
	case reflect.DeepEqual(got, ev):
		return "E"
	case clamp != nil && reflect.DeepEqual(got, clamp):
		return "C"
	case reflect.DeepEqual(got, zero) || (i == 3 && len(c.Storage.RootDirs) == 0):
		return "Z"
	}
	return fmt.Sprintf("?%v", got)
}

func TestVerifC20(t *testing.T) {
	out := os.Getenv("VERIF_OUT")
	if out == "" {
		t.Skip("VERIF_OUT not set")
	}
	seed, _ := strconv.ParseUint(os.Getenv("VERIF_SEED"), 10, 64)
	thorough := os.Getenv("VERIF_TIER") == "thorough"
	opsF, _ := os.Create(filepath.Join(out, "c20.ops"))
	implF, _ := os.Create(filepath.Join(out, "c20.impl"))
	ops, impl := bufio.NewWriterSize(opsF, 1<<20), bufio.NewWriterSize(implF, 1<<20)
	yamlPath := filepath.Join(out, "c20.yaml")
	counts := map[string]int{}
	lines := 0
	distinct := map[string]bool{}

	run := func(hasFile bool, states []string) {
		hf := "nofile"
		if hasFile {
			hf = "file"
		}
		line := "cfg " + hf + " " + strings.Join(states, " ")
		if distinct[line] {
			return
		}
		distinct[line] = true
		lines++
		fmt.Fprintln(ops, line)
		for i, e := range c20env {
			switch states[i][1] {
			case 'u':
				os.Unsetenv(e)
			case 'e':
				os.Setenv(e, "")
			case 'p':
				os.Setenv(e, c20envVal[i])
			case 'm':
				os.Setenv(e, c20envBad[i])
			case 'z':
				os.Setenv(e, c20envZero[i])
			}
		}
		file := ""
		if hasFile {
			os.WriteFile(yamlPath, []byte(c20yaml(states)), 0o644)
			file = yamlPath
		}
		res := func() (res string) {
			defer func() {
				if r := recover(); r != nil {
					res = "panic"
				}
			}()
			c, err := ParseConfig(file)
			if err != nil {
				if strings.Contains(err.Error(), "decode:") {
					return "e:decode"
				}
				if strings.Contains(err.Error(), "parse env:") {
					return "e:env"
				}
				return "e:other"
			}
			err = c.Storage.Valid()
			if errors.Is(err, fs_db.ErrEmptyDbPath) {
				return "e:EmptyDbPath"
			}
			if errors.Is(err, fs_db.ErrEmptyRootDirs) {
				return "e:EmptyRootDirs"
			}
			if err != nil {
				return "e:other"
			}
			toks := []string{"ok"}
			for i := 0; i < 7; i++ {
				toks = append(toks, c20tok(i, c))
			}
			return strings.Join(toks, " ")
		}()
		counts[strings.SplitN(res, " ", 2)[0]]++
		fmt.Fprintln(impl, res)
	}

	all := func(i int) []string {
		s := []string{"au", "pu", "ap", "pp", "pe", "ae", "zu", "ze", "zp", "mu", "mp"}
		if i != 1 && i != 3 {
			s = append(s, "pm", "am", "zm", "az", "pz", "zz")
		}
		return s
	}
	base := func() []string { return []string{"au", "au", "au", "au", "au", "au", "au"} }
	// single and pairwise variations, with and without file
	for i := 0; i < 7; i++ {
		for _, a := range all(i) {
			s := base()
			s[i] = a
			run(true, s)
			run(false, s)
			for j := i + 1; j < 7; j++ {
				for _, b := range all(j) {
					s2 := append([]string(nil), s...)
					s2[j] = b
					run(true, s2)
				}
			}
		}
	}
	rng := &c20rng{s: seed*7907 + 11}
	n := 3000
	if thorough {
		n = 60000
		// full product over the six states of the property's quantifier
		six := []string{"au", "pu", "ap", "pp", "pe", "mu"}
		idx := make([]int, 7)
		for {
			s := make([]string, 7)
			for i := range s {
				s[i] = six[idx[i]]
			}
			run(true, s)
			k := 0
			for k < 7 {
				idx[k]++
				if idx[k] < 6 {
					break
				}
				idx[k] = 0
				k++
			}
			if k == 7 {
				break
			}
		}
	}
	for i := 0; i < n; i++ {
		s := make([]string, 7)
		for j := range s {
			a := all(j)
			if rng.n(3) == 0 {
				s[j] = a[rng.n(len(a))]
			} else {
				s[j] = a[rng.n(9)] // mostly well-formed
			}
		}
		run(rng.n(6) != 0, s)
	}
	for _, e := range c20env {
		os.Unsetenv(e)
	}
	ops.Flush()
	impl.Flush()
	opsF.Close()
	implF.Close()
	b, _ := json.MarshalIndent(map[string]any{"lines": lines, "outcomes": counts}, "", " ")
	os.WriteFile(filepath.Join(out, "c20.stats.json"), b, 0o644)
}
