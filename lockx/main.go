// lockx: translator from /repo's Go source to the lock skeletons of FsDb/Model/Lockset.lean (C15).
//
// For every root (public entry point, goroutine body, escaping closure) it produces one structured
// statement whose leaves are acq/rel of a named mutex and `need` of a named mutex (an access to
// state that locks.json assigns to that mutex), with all statically resolvable fs_db calls inlined.
// What it cannot express becomes `bad` (never accepted by the Lean checker).  Trusted: this
// translator and the guard table locks.json (what protects what); see DESIGN.md §C15.
package main

import (
	"encoding/json"
	"flag"
	"fmt"
	"go/ast"
	"go/token"
	"go/types"
	"os"
	"path/filepath"
	"sort"
	"strings"

	"golang.org/x/tools/go/packages"
)

const modPath = "github.com/glebziz/fs_db"

type fieldSpec struct {
	Guard   string            `json:"guard"`   // mutex field name | "sync" | "immutable" | "self" | "flag" | "init"
	Methods map[string]string `json:"methods"` // methods of an external type reached through the field: R | W | none
}

func (f *fieldSpec) UnmarshalJSON(b []byte) error {
	var s string
	if json.Unmarshal(b, &s) == nil {
		f.Guard = s
		return nil
	}
	type raw fieldSpec
	return json.Unmarshal(b, (*raw)(f))
}

type structSpec struct {
	Kind    string               `json:"kind"` // monitor | owned | value | wiring | confined | lazy
	Fields  map[string]fieldSpec `json:"fields"`
	Primary string               `json:"primary"` // monitor: mutex protecting owned objects handed out by its methods
	Ctor    string               `json:"ctor"`    // lazy: the function that must write every field written anywhere
	Cond    map[string]string    `json:"cond"`    // field of type *sync.Cond -> mutex field it is bound to
	Why     string               `json:"why"`
}

type exemption struct {
	Fields []string `json:"fields"`
	Why    string   `json:"why"`
}

type siteNeed struct {
	RecvField string `json:"recv_field"` // field (a monitor) of the root's receiver whose primary mutex is needed
	W         bool   `json:"w"`
}

type config struct {
	Exclude      []string              `json:"exclude"`
	Structs      map[string]structSpec `json:"structs"`
	Vars         map[string]string     `json:"vars"`
	OwnedRead    []string              `json:"owned_read_methods"`
	OwnedNoState []string              `json:"owned_pure_methods"`
	SiteNeeds    map[string]siteNeed   `json:"site_needs"`
	Roots        []string              `json:"roots"`
	Ctors        []string              `json:"constructors"` // prefixes of function names allowed to write wiring/immutable fields
	Fresh        []string              `json:"fresh_calls"`  // calls returning objects nobody else can reach yet
	Exempt       map[string]exemption  `json:"exempt_uses"`  // function -> fields it may touch without their mutex, with the reason
	Bind         map[string]string     `json:"bind"`         // interface -> the concrete type the DI container wires in (where not unique)
}

// ---- statements --------------------------------------------------------------------------------

type S struct {
	k    string // skip ev seq alt loop scope frame block ret brk cont bad
	ek   string // acq rel need
	l    int
	w    bool
	a, b *S
	why  string
	src  string
}

var (
	sSkip = &S{k: "skip"}
	sRet  = &S{k: "ret"}
	sBrk  = &S{k: "brk"}
	sCont = &S{k: "cont"}
)

func seq(xs ...*S) *S {
	var r *S
	for i := len(xs) - 1; i >= 0; i-- {
		x := xs[i]
		if x == nil || x.k == "skip" {
			continue
		}
		if r == nil {
			r = x
		} else {
			r = &S{k: "seq", a: x, b: r}
		}
	}
	if r == nil {
		return sSkip
	}
	return r
}
func alt(a, b *S) *S {
	if a.k == "skip" && b.k == "skip" {
		return sSkip
	}
	return &S{k: "alt", a: a, b: b}
}
func loop(a *S) *S {
	if a.k == "skip" {
		return sSkip
	}
	return &S{k: "loop", a: a}
}
func hasAbrupt(s *S, kinds ...string) bool {
	if s == nil {
		return false
	}
	for _, k := range kinds {
		if s.k == k {
			return true
		}
	}
	switch s.k {
	case "frame":
		return false
	case "block":
		ks := []string{}
		for _, k := range kinds {
			if k != "brk" {
				ks = append(ks, k)
			}
		}
		return hasAbrupt(s.a, ks...)
	case "loop":
		ks := []string{}
		for _, k := range kinds {
			if k != "brk" && k != "cont" {
				ks = append(ks, k)
			}
		}
		return hasAbrupt(s.a, ks...)
	}
	return hasAbrupt(s.a, kinds...) || hasAbrupt(s.b, kinds...)
}
func frameOf(a *S) *S {
	if !hasAbrupt(a, "ret") {
		return a
	}
	return &S{k: "frame", a: a}
}
func blockOf(a *S) *S {
	if !hasAbrupt(a, "brk") {
		return a
	}
	return &S{k: "block", a: a}
}

// ---- translator ---------------------------------------------------------------------------------

type binding struct {
	text     string
	lit      *ast.FuncLit
	litFrame *frame
	arg      ast.Expr
	argFrame *frame
}

type frame struct {
	pkg    *packages.Package
	env    map[types.Object]binding
	parent *frame // lexical parent (closures)
	root   *root
	fn     *types.Func
	depth  int
}

type root struct {
	name     string
	recvText string
	recvType string
	ctor     bool
	body     *S
}

type tr struct {
	cfg     config
	pkgs    map[string]*packages.Package
	decls   map[*types.Func]*ast.FuncDecl
	declPkg map[*types.Func]*packages.Package
	impls   []*types.Named
	locks   []string
	lockIx  map[string]int
	roots   []*root
	rootIx  map[string]bool
	pending []func()
	notes   map[string]bool
	stack   []*types.Func
	written map[string]map[string]bool // lazy struct -> fields written (anywhere)
	fset    *token.FileSet
	curRoot *root
	cur     string // source position of the statement being translated
}

func (t *tr) note(f string, a ...any) { t.notes[fmt.Sprintf(f, a...)] = true }

func (t *tr) bad(why string, a ...any) *S {
	w := fmt.Sprintf(why, a...)
	t.note("BAD: %s", w)
	return &S{k: "bad", why: w}
}

func (t *tr) lock(name string) int {
	if i, ok := t.lockIx[name]; ok {
		return i
	}
	t.lockIx[name] = len(t.locks)
	t.locks = append(t.locks, name)
	return len(t.locks) - 1
}

func (t *tr) ev(kind, name string, w bool) *S {
	if kind == "need" && t.curRoot != nil && t.curRoot.ctor {
		// construction phase (Open / New): single goroutine, the handle is published afterwards
		return sSkip
	}
	return &S{k: "ev", ek: kind, l: t.lock(name), w: w, src: t.cur}
}

func short(path string) string { return strings.TrimPrefix(strings.TrimPrefix(path, modPath), "/") }

func (t *tr) excluded(path string) bool {
	if !strings.HasPrefix(path, modPath) {
		return true
	}
	for _, e := range t.cfg.Exclude {
		if strings.Contains(path, e) {
			return true
		}
	}
	return false
}

func deref(ty types.Type) types.Type {
	for {
		p, ok := types.Unalias(ty).(*types.Pointer)
		if !ok {
			return types.Unalias(ty)
		}
		ty = p.Elem()
	}
}

// structName: "internal/model/core.Transaction" for (pointers to) named struct types of fs_db
func (t *tr) structName(ty types.Type) (string, bool) {
	if ty == nil {
		return "", false
	}
	n, ok := deref(ty).(*types.Named)
	if !ok {
		return "", false
	}
	o := n.Origin().Obj()
	if o.Pkg() == nil || !strings.HasPrefix(o.Pkg().Path(), modPath) {
		return "", false
	}
	if _, ok := n.Underlying().(*types.Struct); !ok {
		return "", false
	}
	return short(o.Pkg().Path()) + "." + o.Name(), true
}

func isSyncType(ty types.Type, names ...string) bool {
	n, ok := deref(ty).(*types.Named)
	if !ok || n.Obj().Pkg() == nil || n.Obj().Pkg().Path() != "sync" {
		return false
	}
	for _, x := range names {
		if n.Obj().Name() == x {
			return true
		}
	}
	return false
}

func (f *frame) lookup(o types.Object) (binding, bool) {
	for fr := f; fr != nil; fr = fr.parent {
		if b, ok := fr.env[o]; ok {
			return b, true
		}
	}
	return binding{}, false
}

func (t *tr) pos(p token.Pos) string {
	ps := t.fset.Position(p)
	return fmt.Sprintf("%s:%d:%d", filepath.Base(ps.Filename), ps.Line, ps.Column)
}

// text: a name for the object an expression denotes, stable within one root
func (t *tr) text(e ast.Expr, fr *frame) string {
	switch e := e.(type) {
	case *ast.Ident:
		o := fr.pkg.TypesInfo.Uses[e]
		if o == nil {
			o = fr.pkg.TypesInfo.Defs[e]
		}
		if v, ok := o.(*types.Var); ok {
			if b, ok := fr.lookup(v); ok && b.lit == nil {
				return b.text
			}
			if v.Pkg() != nil && v.Parent() == v.Pkg().Scope() {
				return short(v.Pkg().Path()) + "." + v.Name()
			}
			return v.Name() + "@" + t.pos(v.Pos())
		}
		return e.Name
	case *ast.SelectorExpr:
		return t.text(e.X, fr) + "." + e.Sel.Name
	case *ast.ParenExpr:
		return t.text(e.X, fr)
	case *ast.StarExpr:
		return t.text(e.X, fr)
	case *ast.UnaryExpr:
		if e.Op == token.AND {
			return t.text(e.X, fr)
		}
	case *ast.IndexExpr:
		return t.text(e.X, fr) + "[]"
	case *ast.CallExpr:
		return t.text(e.Fun, fr) + "()@" + t.pos(e.Pos())
	}
	return "expr@" + t.pos(e.Pos())
}

// callee: statically known function of a call, and the receiver expression (nil for functions)
func (t *tr) callee(c *ast.CallExpr, fr *frame) (*types.Func, ast.Expr) {
	info := fr.pkg.TypesInfo
	fun := ast.Unparen(c.Fun)
	if ix, ok := fun.(*ast.IndexExpr); ok { // explicit instantiation
		fun = ix.X
	}
	if ix, ok := fun.(*ast.IndexListExpr); ok {
		fun = ix.X
	}
	switch f := fun.(type) {
	case *ast.Ident:
		if fn, ok := info.Uses[f].(*types.Func); ok {
			return fn.Origin(), nil
		}
	case *ast.SelectorExpr:
		if sel, ok := info.Selections[f]; ok {
			if fn, ok := sel.Obj().(*types.Func); ok && sel.Kind() == types.MethodVal {
				return fn.Origin(), f.X
			}
			return nil, nil
		}
		if fn, ok := info.Uses[f.Sel].(*types.Func); ok { // pkg.Func
			return fn.Origin(), nil
		}
	}
	return nil, nil
}

// implementation of an interface method among fs_db's own types (unique or nil)
func (t *tr) implOf(fn *types.Func) *types.Func {
	sig := fn.Type().(*types.Signature)
	if sig.Recv() == nil {
		return nil
	}
	iface, ok := sig.Recv().Type().Underlying().(*types.Interface)
	if !ok {
		return nil
	}
	var found []*types.Func
	want := ""
	if n, ok := sig.Recv().Type().(*types.Named); ok && n.Obj().Pkg() != nil {
		want = t.cfg.Bind[short(n.Obj().Pkg().Path())+"."+n.Obj().Name()]
	}
	for _, n := range t.impls {
		if want != "" && short(n.Obj().Pkg().Path())+"."+n.Obj().Name() != want {
			continue
		}
		if n.TypeParams().Len() > 0 || types.IsInterface(n) {
			continue
		}
		for _, ty := range []types.Type{n, types.NewPointer(n)} {
			if types.Implements(ty, iface) {
				o, _, _ := types.LookupFieldOrMethod(ty, true, n.Obj().Pkg(), fn.Name())
				if m, ok := o.(*types.Func); ok {
					found = append(found, m.Origin())
				}
				break
			}
		}
	}
	if len(found) == 1 {
		return found[0]
	}
	if len(found) > 1 {
		// embedded promotion (store.Guarded embeds *UseCase): prefer the outermost wrapper with its own body
		var own []*types.Func
		seen := map[*types.Func]bool{}
		for _, m := range found {
			if !seen[m] {
				seen[m] = true
				own = append(own, m)
			}
		}
		if len(own) == 1 {
			return own[0]
		}
		t.note("ambiguous implementation of %s: %d candidates", fn.FullName(), len(own))
	}
	return nil
}

func (t *tr) fieldSpecOf(sel *ast.SelectorExpr, fr *frame) (string, *structSpec, *fieldSpec, bool) {
	s, ok := fr.pkg.TypesInfo.Selections[sel]
	if !ok || s.Kind() != types.FieldVal {
		return "", nil, nil, false
	}
	// the struct that declares the field (promotion through embedding: walk the index path)
	ty := s.Recv()
	idx := s.Index()
	for i := 0; i < len(idx)-1; i++ {
		st, ok := deref(ty).Underlying().(*types.Struct)
		if !ok {
			return "", nil, nil, false
		}
		ty = st.Field(idx[i]).Type()
	}
	name, ok := t.structName(ty)
	if !ok {
		return "", nil, nil, false
	}
	spec, ok := t.cfg.Structs[name]
	if !ok {
		return name, nil, nil, true
	}
	if fs, ok := spec.Fields[sel.Sel.Name]; ok {
		return name, &spec, &fs, true
	}
	return name, &spec, nil, true
}

func (t *tr) isCtor(fr *frame) bool {
	for f := fr; f != nil; f = f.parent {
		if f.root != nil && f.root.ctor {
			return true
		}
	}
	for _, fn := range t.stack {
		for _, p := range t.cfg.Ctors {
			if strings.HasPrefix(short(fn.Pkg().Path())+"."+fn.Name(), p) || strings.HasPrefix(fn.Name(), p) {
				return true
			}
		}
	}
	return false
}

// exempt: the innermost function being translated may touch struct.field without its mutex (locks.json, with a reason)
func (t *tr) exempt(structName, field string) bool {
	if len(t.stack) == 0 {
		return false
	}
	fn := t.stack[len(t.stack)-1]
	ex, ok := t.cfg.Exempt[short(fn.Pkg().Path())+"."+recvName(fn)+fn.Name()]
	if !ok {
		return false
	}
	for _, f := range ex.Fields {
		if f == structName+"."+field {
			t.note("exempt: %s%s touches %s.%s without its mutex: %s", recvName(fn), fn.Name(), structName, field, ex.Why)
			return true
		}
	}
	return false
}

// freshLocal: a local variable holding an object this very function has just created (composite
// literal, new, zero-valued var): nobody else can reach it before the function hands it out
func (t *tr) freshLocal(e ast.Expr, fr *frame) bool {
	id, ok := ast.Unparen(e).(*ast.Ident)
	if !ok {
		return false
	}
	v, ok := fr.pkg.TypesInfo.Uses[id].(*types.Var)
	if !ok || v.IsField() || (v.Pkg() != nil && v.Parent() == v.Pkg().Scope()) {
		return false
	}
	if _, bound := fr.lookup(v); bound {
		return false
	}
	d, _ := t.defOf(v, fr)
	if d == nil {
		// `var x T`: declared without a value, in this function
		for f := fr; f != nil; f = f.parent {
			if f.fn != nil {
				if decl := t.decls[f.fn]; decl != nil && decl.Body != nil && decl.Body.Pos() <= v.Pos() && v.Pos() <= decl.Body.End() {
					if _, isStruct := deref(v.Type()).Underlying().(*types.Struct); isStruct {
						if _, isPtr := types.Unalias(v.Type()).(*types.Pointer); !isPtr {
							return true
						}
					}
				}
			}
		}
		return false
	}
	d = ast.Unparen(d)
	if u, ok := d.(*ast.UnaryExpr); ok && u.Op == token.AND {
		d = ast.Unparen(u.X)
	}
	if _, ok := d.(*ast.CompositeLit); ok {
		return true
	}
	if c, ok := d.(*ast.CallExpr); ok {
		if id, ok := ast.Unparen(c.Fun).(*ast.Ident); ok && id.Name == "new" {
			return true
		}
	}
	return false
}

// use: events of a field selection (w: the field itself is written)
func (t *tr) use(sel *ast.SelectorExpr, fr *frame, w bool, viaMethod string) *S {
	name, spec, fs, ok := t.fieldSpecOf(sel, fr)
	if !ok {
		return sSkip
	}
	if spec == nil {
		return t.bad("struct %s is not classified in locks.json (field %s at %s)", name, sel.Sel.Name, t.pos(sel.Pos()))
	}
	switch spec.Kind {
	case "value", "confined":
		return sSkip
	case "wiring":
		if fs == nil || fs.Guard == "immutable" || fs.Guard == "" {
			if w && !t.isCtor(fr) {
				return t.bad("write to wiring field %s.%s outside a constructor at %s", name, sel.Sel.Name, t.pos(sel.Pos()))
			}
			return sSkip
		}
	case "lazy":
		if w {
			if t.written[name] == nil {
				t.written[name] = map[string]bool{}
			}
			t.written[name][sel.Sel.Name] = true
		}
		return sSkip
	case "owned":
		lk, kind := t.owner(sel.X, fr)
		switch kind {
		case "lock":
			return t.ev("need", lk, true)
		case "fresh":
			return sSkip
		}
		return t.bad("owner of %s unknown at %s", t.text(sel, fr), t.pos(sel.Pos()))
	}
	if fs == nil {
		return t.bad("field %s.%s is not classified in locks.json (at %s)", name, sel.Sel.Name, t.pos(sel.Pos()))
	}
	if t.exempt(name, sel.Sel.Name) || t.freshLocal(sel.X, fr) {
		return sSkip
	}
	switch fs.Guard {
	case "sync", "self", "flag", "atomic":
		return sSkip
	case "immutable", "init":
		if w && !t.isCtor(fr) && fs.Guard == "immutable" {
			return t.bad("write to immutable field %s.%s outside a constructor at %s", name, sel.Sel.Name, t.pos(sel.Pos()))
		}
		return sSkip
	}
	mode := w
	if viaMethod != "" {
		switch fs.Methods[viaMethod] {
		case "none":
			return sSkip
		case "R":
			mode = false
		default:
			mode = true
		}
	}
	return t.ev("need", t.text(sel.X, fr)+"."+fs.Guard, mode)
}

// owner: the mutex protecting an object of an owned type denoted by e
func (t *tr) owner(e ast.Expr, fr *frame) (string, string) {
	return t.owner1(e, fr, 0)
}

func (t *tr) owner1(e ast.Expr, fr *frame, depth int) (string, string) {
	if depth > 12 {
		return "", "unknown"
	}
	info := fr.pkg.TypesInfo
	switch e := ast.Unparen(e).(type) {
	case *ast.Ident:
		o := info.Uses[e]
		if o == nil {
			o = info.Defs[e]
		}
		v, ok := o.(*types.Var)
		if !ok {
			if _, isNil := o.(*types.Nil); isNil {
				return "", "fresh"
			}
			return "", "unknown"
		}
		if b, ok := fr.lookup(v); ok && b.arg != nil {
			return t.owner1(b.arg, b.argFrame, depth+1)
		}
		if d, dfr := t.defOf(v, fr); d != nil {
			return t.owner1(d, dfr, depth+1)
		}
		return "", "unknown"
	case *ast.SelectorExpr:
		name, spec, fs, ok := t.fieldSpecOf(e, fr)
		if ok && spec != nil {
			switch spec.Kind {
			case "monitor", "wiring":
				if fs != nil {
					switch fs.Guard {
					case "self":
						return "", "unknown"
					case "sync", "immutable", "init", "flag", "atomic", "":
						return "", "unknown"
					default:
						if t.exempt(name, e.Sel.Name) {
							return "", "fresh"
						}
						return t.text(e.X, fr) + "." + fs.Guard, "lock"
					}
				}
			case "owned":
				return t.owner1(e.X, fr, depth+1)
			case "value", "confined":
				return "", "fresh"
			}
			_ = name
		}
		return "", "unknown"
	case *ast.CallExpr:
		if id, ok := ast.Unparen(e.Fun).(*ast.Ident); ok {
			if _, isB := info.Uses[id].(*types.Builtin); isB {
				switch id.Name {
				case "make", "new":
					return "", "fresh"
				case "append":
					return t.owner1(e.Args[0], fr, depth+1)
				}
			}
		}
		fn, recv := t.callee(e, fr)
		if fn != nil {
			full := short(fn.Pkg().Path()) + "." + recvName(fn) + fn.Name()
			for _, f := range t.cfg.Fresh {
				if f == full {
					return "", "fresh"
				}
			}
			if recv != nil {
				rt := info.TypeOf(recv)
				if sn, ok := t.structName(rt); ok {
					spec := t.cfg.Structs[sn]
					switch spec.Kind {
					case "monitor":
						if spec.Primary != "" {
							return t.text(recv, fr) + "." + spec.Primary, "lock"
						}
					case "owned":
						return t.owner1(recv, fr, depth+1)
					}
				}
			}
		}
		return "", "unknown"
	case *ast.IndexExpr:
		return t.owner1(e.X, fr, depth+1)
	case *ast.UnaryExpr:
		return t.owner1(e.X, fr, depth+1)
	case *ast.StarExpr:
		return t.owner1(e.X, fr, depth+1)
	case *ast.CompositeLit:
		return "", "fresh"
	}
	return "", "unknown"
}

func recvName(fn *types.Func) string {
	sig := fn.Type().(*types.Signature)
	if sig.Recv() == nil {
		return ""
	}
	if n, ok := deref(sig.Recv().Type()).(*types.Named); ok {
		return n.Obj().Name() + "."
	}
	return "?."
}

// defOf: the first defining expression of a local variable (:=, var, range)
func (t *tr) defOf(v *types.Var, fr *frame) (ast.Expr, *frame) {
	for f := fr; f != nil; f = f.parent {
		var found ast.Expr
		for _, file := range f.pkg.Syntax {
			if file.Pos() <= v.Pos() && v.Pos() <= file.End() {
				ast.Inspect(file, func(n ast.Node) bool {
					if found != nil || n == nil {
						return false
					}
					switch s := n.(type) {
					case *ast.AssignStmt:
						for i, l := range s.Lhs {
							if id, ok := l.(*ast.Ident); ok && f.pkg.TypesInfo.Defs[id] == v {
								if len(s.Rhs) == len(s.Lhs) {
									found = s.Rhs[i]
								} else {
									found = s.Rhs[0]
								}
							}
						}
					case *ast.RangeStmt:
						for _, l := range []ast.Expr{s.Key, s.Value} {
							if id, ok := l.(*ast.Ident); ok && f.pkg.TypesInfo.Defs[id] == v {
								found = s.X
							}
						}
					case *ast.ValueSpec:
						for i, id := range s.Names {
							if f.pkg.TypesInfo.Defs[id] == v && i < len(s.Values) {
								found = s.Values[i]
							}
						}
					}
					return true
				})
			}
		}
		if found != nil {
			return found, f
		}
	}
	return nil, nil
}

// ---- expressions --------------------------------------------------------------------------------

func (t *tr) exprs(es []ast.Expr, fr *frame) *S {
	var out []*S
	for _, e := range es {
		out = append(out, t.expr(e, fr, false))
	}
	return seq(out...)
}

func (t *tr) expr(e ast.Expr, fr *frame, w bool) *S {
	if e == nil {
		return sSkip
	}
	switch e := e.(type) {
	case *ast.Ident, *ast.BasicLit:
		return sSkip
	case *ast.ParenExpr:
		return t.expr(e.X, fr, w)
	case *ast.SelectorExpr:
		if sel, ok := fr.pkg.TypesInfo.Selections[e]; ok && sel.Kind() == types.MethodVal {
			// method value escaping as a func value: a root of its own
			if fn, ok := sel.Obj().(*types.Func); ok {
				t.hoistMethod(fn.Origin(), e.X, fr)
			}
			return t.expr(e.X, fr, false)
		}
		return seq(t.expr(e.X, fr, false), t.use(e, fr, w, ""))
	case *ast.StarExpr:
		return t.expr(e.X, fr, w)
	case *ast.UnaryExpr:
		if e.Op == token.AND {
			if _, isLit := ast.Unparen(e.X).(*ast.CompositeLit); isLit {
				return t.expr(e.X, fr, false)
			}
			// address taken: whoever gets the pointer may write
			return t.expr(e.X, fr, true)
		}
		return t.expr(e.X, fr, false)
	case *ast.BinaryExpr:
		if e.Op == token.LAND || e.Op == token.LOR {
			return seq(t.expr(e.X, fr, false), alt(t.expr(e.Y, fr, false), sSkip))
		}
		return seq(t.expr(e.X, fr, false), t.expr(e.Y, fr, false))
	case *ast.IndexExpr:
		return seq(t.expr(e.Index, fr, false), t.expr(e.X, fr, w))
	case *ast.IndexListExpr:
		return t.expr(e.X, fr, w)
	case *ast.SliceExpr:
		return seq(t.expr(e.Low, fr, false), t.expr(e.High, fr, false), t.expr(e.Max, fr, false), t.expr(e.X, fr, w))
	case *ast.TypeAssertExpr:
		return t.expr(e.X, fr, false)
	case *ast.KeyValueExpr:
		return seq(t.expr(e.Key, fr, false), t.expr(e.Value, fr, false))
	case *ast.CompositeLit:
		var out []*S
		for _, el := range e.Elts {
			if kv, ok := el.(*ast.KeyValueExpr); ok {
				out = append(out, t.expr(kv.Value, fr, false))
			} else {
				out = append(out, t.expr(el, fr, false))
			}
		}
		return seq(out...)
	case *ast.FuncLit:
		t.hoistLit(e, fr, "closure")
		return sSkip
	case *ast.CallExpr:
		return t.call(e, fr)
	case *ast.ArrayType, *ast.MapType, *ast.ChanType, *ast.FuncType, *ast.InterfaceType, *ast.StructType, *ast.Ellipsis:
		return sSkip
	}
	return t.bad("expression %T at %s", e, t.pos(e.Pos()))
}

func (t *tr) hoistLit(lit *ast.FuncLit, fr *frame, kind string) {
	name := fmt.Sprintf("%s$%s@%s", t.curRoot.name, kind, t.pos(lit.Pos()))
	if t.rootIx[name] {
		return
	}
	t.rootIx[name] = true
	parentRoot := t.curRoot
	stack := append([]*types.Func{}, t.stack...)
	t.pending = append(t.pending, func() {
		r := &root{name: name, recvText: parentRoot.recvText, recvType: parentRoot.recvType}
		t.curRoot = r
		t.stack = stack
		nf := &frame{pkg: fr.pkg, env: map[types.Object]binding{}, parent: fr, root: r}
		r.body = t.funcBody(lit.Body, nf)
		t.roots = append(t.roots, r)
	})
}

func (t *tr) hoistMethod(fn *types.Func, recv ast.Expr, fr *frame) {
	decl := t.decls[fn]
	if decl == nil || t.excluded(fn.Pkg().Path()) {
		return
	}
	name := fmt.Sprintf("%s$value %s%s", t.curRoot.name, recvName(fn), fn.Name())
	if t.rootIx[name] {
		return
	}
	t.rootIx[name] = true
	parentRoot := t.curRoot
	rtext := t.text(recv, fr)
	t.pending = append(t.pending, func() {
		r := &root{name: name, recvText: parentRoot.recvText, recvType: parentRoot.recvType}
		t.curRoot = r
		t.stack = nil
		r.body = t.inline(fn, decl, rtext, recv, fr, nil, nil)
		t.roots = append(t.roots, r)
	})
}

func isNilCheckOf(cond ast.Expr, name string) bool {
	b, ok := ast.Unparen(cond).(*ast.BinaryExpr)
	if !ok {
		return false
	}
	if b.Op == token.LOR {
		return isNilCheckOf(b.X, name)
	}
	if b.Op != token.EQL {
		return false
	}
	x, ok1 := b.X.(*ast.Ident)
	y, ok2 := b.Y.(*ast.Ident)
	return ok1 && ok2 && x.Name == name && y.Name == "nil"
}

// inline: the body of a statically known fs_db function as a frame
func (t *tr) inline(fn *types.Func, decl *ast.FuncDecl, recvText string, recvExpr ast.Expr, callerFr *frame, args []ast.Expr, argFr *frame) *S {
	for _, s := range t.stack {
		if s == fn {
			return t.bad("recursive call of %s", fn.FullName())
		}
	}
	if decl.Body == nil {
		return sSkip
	}
	pkg := t.declPkg[fn]
	nf := &frame{pkg: pkg, env: map[types.Object]binding{}, fn: fn, root: nil}
	if callerFr != nil {
		nf.depth = callerFr.depth + 1
	}
	if decl.Recv != nil && len(decl.Recv.List) == 1 && len(decl.Recv.List[0].Names) == 1 {
		ro := pkg.TypesInfo.Defs[decl.Recv.List[0].Names[0]]
		if ro != nil {
			nf.env[ro] = binding{text: recvText, arg: recvExpr, argFrame: callerFr}
		}
	}
	i := 0
	for _, f := range decl.Type.Params.List {
		for _, n := range f.Names {
			if i < len(args) {
				po := pkg.TypesInfo.Defs[n]
				if po != nil {
					a := ast.Unparen(args[i])
					if lit, ok := a.(*ast.FuncLit); ok {
						nf.env[po] = binding{lit: lit, litFrame: argFr}
					} else if id, ok := a.(*ast.Ident); ok {
						// a func-typed variable bound to a literal further up
						if v, ok := argFr.pkg.TypesInfo.Uses[id].(*types.Var); ok {
							if b, ok := argFr.lookup(v); ok && b.lit != nil {
								nf.env[po] = b
								i++
								continue
							}
						}
						nf.env[po] = binding{text: t.text(a, argFr), arg: a, argFrame: argFr}
					} else {
						nf.env[po] = binding{text: t.text(a, argFr), arg: a, argFrame: argFr}
					}
				}
			}
			i++
		}
		if len(f.Names) == 0 {
			i++
		}
	}
	t.stack = append(t.stack, fn)
	defer func() { t.stack = t.stack[:len(t.stack)-1] }()
	body := decl.Body.List
	// `if recv == nil { return ... }`: a nil receiver touches nothing
	if decl.Recv != nil && len(decl.Recv.List) == 1 && len(decl.Recv.List[0].Names) == 1 {
		rn := decl.Recv.List[0].Names[0].Name
		for len(body) > 0 {
			is, ok := body[0].(*ast.IfStmt)
			if !ok || is.Init != nil || is.Else != nil || !isNilCheckOf(is.Cond, rn) || len(is.Body.List) != 1 {
				break
			}
			if _, isRet := is.Body.List[0].(*ast.ReturnStmt); !isRet {
				break
			}
			body = body[1:]
		}
	}
	return frameOf(t.stmts(body, nf, true))
}

func (t *tr) funcBody(b *ast.BlockStmt, fr *frame) *S {
	return frameOf(t.stmts(b.List, fr, true))
}

func (t *tr) call(c *ast.CallExpr, fr *frame) *S {
	info := fr.pkg.TypesInfo
	fun := ast.Unparen(c.Fun)
	// conversions
	if tv, ok := info.Types[fun]; ok && tv.IsType() {
		return t.exprs(c.Args, fr)
	}
	// builtins
	if id, ok := fun.(*ast.Ident); ok {
		if _, isB := info.Uses[id].(*types.Builtin); isB {
			switch id.Name {
			case "delete", "clear", "close":
				var out []*S
				for i, a := range c.Args {
					out = append(out, t.expr(a, fr, i == 0))
				}
				return seq(out...)
			}
			return t.exprs(c.Args, fr)
		}
		// call of a func-typed variable bound to a literal
		if v, ok := info.Uses[id].(*types.Var); ok {
			if b, ok := fr.lookup(v); ok && b.lit != nil {
				nf := &frame{pkg: b.litFrame.pkg, env: map[types.Object]binding{}, parent: b.litFrame}
				return seq(t.exprs(c.Args, fr), frameOf(t.stmts(b.lit.Body.List, nf, true)))
			}
			t.note("unresolved call of func value %s at %s", id.Name, t.pos(c.Pos()))
			return t.exprs(c.Args, fr)
		}
	}
	if lit, ok := fun.(*ast.FuncLit); ok { // func(){...}()
		nf := &frame{pkg: fr.pkg, env: map[types.Object]binding{}, parent: fr}
		return seq(t.exprs(c.Args, fr), frameOf(t.stmts(lit.Body.List, nf, true)))
	}
	fn, recv := t.callee(c, fr)
	if fn == nil {
		if sel, ok := fun.(*ast.SelectorExpr); ok {
			t.note("unresolved call through func-typed field/value %s at %s", t.text(sel, fr), t.pos(c.Pos()))
			return seq(t.expr(sel.X, fr, false), t.use(sel, fr, false, ""), t.argsOf(c, fr, nil))
		}
		t.note("unresolved call at %s", t.pos(c.Pos()))
		return t.argsOf(c, fr, nil)
	}
	// mutexes and condition variables
	if recv != nil {
		rt := info.TypeOf(recv)
		if isSyncType(rt, "Mutex", "RWMutex") {
			flag := false
			if sel, ok := ast.Unparen(recv).(*ast.SelectorExpr); ok {
				if _, _, fs, ok := t.fieldSpecOf(sel, fr); ok && fs != nil && fs.Guard == "flag" {
					flag = true
				}
			}
			if flag {
				return sSkip
			}
			name := t.text(recv, fr)
			switch fn.Name() {
			case "Lock":
				return t.ev("acq", name, true)
			case "RLock":
				return t.ev("acq", name, false)
			case "Unlock":
				return t.ev("rel", name, true)
			case "RUnlock":
				return t.ev("rel", name, false)
			}
			return t.bad("%s.%s outside the supported `if [!]m.TryLock()` form at %s", name, fn.Name(), t.pos(c.Pos()))
		}
		if isSyncType(rt, "Cond") {
			if fn.Name() == "Wait" {
				if sel, ok := ast.Unparen(recv).(*ast.SelectorExpr); ok {
					if _, spec, _, ok := t.fieldSpecOf(sel, fr); ok && spec != nil && spec.Cond[sel.Sel.Name] != "" {
						m := t.text(sel.X, fr) + "." + spec.Cond[sel.Sel.Name]
						return seq(t.ev("need", m, true), t.ev("rel", m, true), t.ev("acq", m, true))
					}
				}
				return t.bad("Cond.Wait on an unclassified condition variable at %s", t.pos(c.Pos()))
			}
			return sSkip
		}
	}
	if fn.Pkg() == nil || t.excluded(fn.Pkg().Path()) {
		// external code: arguments are evaluated; function-valued arguments escape (roots of their own)
		var pre *S = sSkip
		if recv != nil {
			if sel, ok := ast.Unparen(recv).(*ast.SelectorExpr); ok {
				pre = seq(t.expr(sel.X, fr, false), t.use(sel, fr, false, fn.Name()))
			} else {
				pre = t.expr(recv, fr, false)
			}
		}
		return seq(pre, t.exprs(c.Args, fr))
	}
	// fs_db's own code
	target := fn
	sig := fn.Type().(*types.Signature)
	if sig.Recv() != nil {
		if _, isIface := sig.Recv().Type().Underlying().(*types.Interface); isIface {
			target = t.implOf(fn)
			if target == nil {
				t.note("interface call %s has no unique fs_db implementation (external or dynamic) at %s", fn.FullName(), t.pos(c.Pos()))
				return seq(t.expr(recv, fr, false), t.argsOf(c, fr, nil))
			}
		}
	}
	full := short(target.Pkg().Path()) + "." + recvName(target) + target.Name()
	// methods of owned types: one access to what the owner's mutex protects
	if recv != nil {
		tsig := target.Type().(*types.Signature)
		if sn, ok := t.structName(tsig.Recv().Type()); ok && t.cfg.Structs[sn].Kind == "owned" {
			pre := seq(t.expr(recv, fr, false), t.argsOf(c, fr, nil))
			mname := recvName(target) + target.Name()
			for _, p := range t.cfg.OwnedNoState {
				if p == mname {
					return pre
				}
			}
			w := true
			for _, p := range t.cfg.OwnedRead {
				if p == mname {
					w = false
				}
			}
			var needs []*S
			if sn2, ok := t.cfg.SiteNeeds[short(target.Pkg().Path())+"."+mname]; ok {
				if fr0 := t.curRoot; fr0 != nil && fr0.recvText != "" {
					base := t.siteBase(fr)
					if base == "" {
						needs = append(needs, t.bad("site need of %s: no enclosing receiver with field %s at %s", mname, sn2.RecvField, t.pos(c.Pos())))
					} else {
						needs = append(needs, t.ev("need", base+"."+sn2.RecvField+"."+t.primaryOfField(fr, sn2.RecvField), sn2.W))
					}
				}
			}
			lk, kind := t.owner(recv, fr)
			switch kind {
			case "lock":
				needs = append(needs, t.ev("need", lk, w))
			case "fresh":
			default:
				needs = append(needs, t.bad("owner of %s (receiver of %s) unknown at %s", t.text(recv, fr), mname, t.pos(c.Pos())))
			}
			return seq(pre, seq(needs...))
		}
	}
	decl := t.decls[target]
	if decl == nil {
		t.note("no body for %s", full)
		return t.argsOf(c, fr, nil)
	}
	var pre []*S
	recvText := ""
	if recv != nil {
		pre = append(pre, t.expr(recv, fr, false))
		recvText = t.text(recv, fr)
	}
	pre = append(pre, t.argsOf(c, fr, target))
	return seq(seq(pre...), t.inline(target, decl, recvText, recv, fr, c.Args, fr))
}

// the text of the nearest enclosing inlined method receiver that is a struct with the wanted field
func (t *tr) siteBase(fr *frame) string {
	for f := fr; f != nil; f = f.parent {
		if f.fn != nil {
			for o, b := range f.env {
				if v, ok := o.(*types.Var); ok && b.text != "" {
					if sig, ok := f.fn.Type().(*types.Signature); ok && sig.Recv() != nil && sig.Recv().Name() == v.Name() {
						return b.text
					}
				}
			}
		}
	}
	return t.curRoot.recvText
}

func (t *tr) primaryOfField(fr *frame, field string) string {
	for _, spec := range t.cfg.Structs {
		_ = spec
	}
	return "m"
}

// arguments of a call; literals passed to an inlined function are bound there, not hoisted
func (t *tr) argsOf(c *ast.CallExpr, fr *frame, inlined *types.Func) *S {
	var out []*S
	for _, a := range c.Args {
		if _, ok := ast.Unparen(a).(*ast.FuncLit); ok && inlined != nil {
			continue
		}
		out = append(out, t.expr(a, fr, false))
	}
	return seq(out...)
}

// ---- statements ---------------------------------------------------------------------------------

func (t *tr) stmts(list []ast.Stmt, fr *frame, top bool) *S {
	for i, s := range list {
		if d, ok := s.(*ast.DeferStmt); ok {
			if !top {
				return seq(t.stmts(list[:i], fr, false), t.bad("defer below the top level of a function at %s", t.pos(d.Pos())))
			}
			pre := t.stmts(list[:i], fr, false)
			// arguments of the deferred call are evaluated now, the call runs at the end
			fin := t.deferred(d, fr)
			rest := t.stmts(list[i+1:], fr, true)
			return seq(pre, &S{k: "scope", a: rest, b: fin})
		}
	}
	var out []*S
	for _, s := range list {
		out = append(out, t.stmt(s, fr))
	}
	return seq(out...)
}

func (t *tr) deferred(d *ast.DeferStmt, fr *frame) *S {
	if lit, ok := ast.Unparen(d.Call.Fun).(*ast.FuncLit); ok {
		nf := &frame{pkg: fr.pkg, env: map[types.Object]binding{}, parent: fr}
		return frameOf(t.stmts(lit.Body.List, nf, true))
	}
	return t.call(d.Call, fr)
}

func tryLockOf(cond ast.Expr) (*ast.CallExpr, bool, bool) {
	neg := false
	e := ast.Unparen(cond)
	if u, ok := e.(*ast.UnaryExpr); ok && u.Op == token.NOT {
		neg = true
		e = ast.Unparen(u.X)
	}
	c, ok := e.(*ast.CallExpr)
	if !ok {
		return nil, false, false
	}
	sel, ok := ast.Unparen(c.Fun).(*ast.SelectorExpr)
	if !ok || (sel.Sel.Name != "TryLock" && sel.Sel.Name != "TryRLock") {
		return nil, false, false
	}
	return c, neg, true
}

func (t *tr) stmt(s ast.Stmt, fr *frame) *S {
	if s != nil {
		t.cur = t.pos(s.Pos())
	}
	switch s := s.(type) {
	case nil:
		return sSkip
	case *ast.EmptyStmt:
		return sSkip
	case *ast.ExprStmt:
		return t.expr(s.X, fr, false)
	case *ast.SendStmt:
		return seq(t.expr(s.Chan, fr, false), t.expr(s.Value, fr, false))
	case *ast.IncDecStmt:
		return t.expr(s.X, fr, true)
	case *ast.AssignStmt:
		var out []*S
		for _, r := range s.Rhs {
			if lit, ok := ast.Unparen(r).(*ast.FuncLit); ok && len(s.Lhs) == len(s.Rhs) && s.Tok == token.DEFINE {
				// fn := func(){...}: bound, inlined where called
				_ = lit
				continue
			}
			out = append(out, t.expr(r, fr, false))
		}
		if s.Tok == token.DEFINE && len(s.Lhs) == len(s.Rhs) {
			for i, l := range s.Lhs {
				if lit, ok := ast.Unparen(s.Rhs[i]).(*ast.FuncLit); ok {
					if id, ok := l.(*ast.Ident); ok {
						if o := fr.pkg.TypesInfo.Defs[id]; o != nil {
							fr.env[o] = binding{lit: lit, litFrame: fr}
						}
					}
				}
			}
		}
		for _, l := range s.Lhs {
			if id, ok := l.(*ast.Ident); ok {
				// assignment to a package-level variable
				if v, ok := fr.pkg.TypesInfo.Uses[id].(*types.Var); ok && v.Pkg() != nil && v.Parent() == v.Pkg().Scope() {
					out = append(out, t.pkgVar(v, true, id.Pos()))
				}
				continue
			}
			out = append(out, t.expr(l, fr, true))
		}
		return seq(out...)
	case *ast.DeclStmt:
		var out []*S
		if gd, ok := s.Decl.(*ast.GenDecl); ok {
			for _, sp := range gd.Specs {
				if vs, ok := sp.(*ast.ValueSpec); ok {
					out = append(out, t.exprs(vs.Values, fr))
				}
			}
		}
		return seq(out...)
	case *ast.BlockStmt:
		return t.stmts(s.List, fr, false)
	case *ast.ReturnStmt:
		return seq(t.exprs(s.Results, fr), sRet)
	case *ast.BranchStmt:
		if s.Label != nil {
			return t.bad("labelled %s at %s", s.Tok, t.pos(s.Pos()))
		}
		switch s.Tok {
		case token.BREAK:
			return sBrk
		case token.CONTINUE:
			return sCont
		}
		return t.bad("%s at %s", s.Tok, t.pos(s.Pos()))
	case *ast.IfStmt:
		init := t.stmt(s.Init, fr)
		els := sSkip
		if s.Else != nil {
			els = t.stmt(s.Else, fr)
		}
		then := t.stmts(s.Body.List, fr, false)
		if c, neg, ok := tryLockOf(s.Cond); ok {
			recv := c.Fun.(*ast.SelectorExpr).X
			name := t.text(recv, fr)
			acq := t.ev("acq", name, true)
			if sel, ok := ast.Unparen(recv).(*ast.SelectorExpr); ok {
				if _, _, fs, ok := t.fieldSpecOf(sel, fr); ok && fs != nil && fs.Guard == "flag" {
					acq = sSkip
				}
			}
			if neg {
				return seq(init, alt(then, seq(acq, els)))
			}
			return seq(init, alt(seq(acq, then), els))
		}
		return seq(init, t.expr(s.Cond, fr, false), alt(then, els))
	case *ast.ForStmt:
		cond := t.expr(s.Cond, fr, false)
		body := seq(t.stmts(s.Body.List, fr, false))
		post := t.stmt(s.Post, fr)
		// `continue` runs post and cond too: put them at the head of the next iteration
		return seq(t.stmt(s.Init, fr), cond, loop(seq(body, alt(seq(post, cond), sSkip))), alt(seq(post, cond), sSkip))
	case *ast.RangeStmt:
		return seq(t.expr(s.X, fr, false), loop(t.stmts(s.Body.List, fr, false)))
	case *ast.SwitchStmt:
		var cases []*S
		hasDefault := false
		for _, cc := range s.Body.List {
			c := cc.(*ast.CaseClause)
			if c.List == nil {
				hasDefault = true
			}
			cases = append(cases, seq(t.exprs(c.List, fr), t.stmts(c.Body, fr, false)))
		}
		r := sSkip
		first := true
		for _, c := range cases {
			if first && hasDefault {
				r = c
				first = false
				continue
			}
			first = false
			r = alt(c, r)
		}
		return seq(t.stmt(s.Init, fr), t.expr(s.Tag, fr, false), blockOf(r))
	case *ast.TypeSwitchStmt:
		var r *S = sSkip
		for _, cc := range s.Body.List {
			c := cc.(*ast.CaseClause)
			r = alt(t.stmts(c.Body, fr, false), r)
		}
		return seq(t.stmt(s.Init, fr), t.stmt(s.Assign, fr), blockOf(r))
	case *ast.SelectStmt:
		var r *S
		for _, cc := range s.Body.List {
			c := cc.(*ast.CommClause)
			b := seq(t.stmt(c.Comm, fr), t.stmts(c.Body, fr, false))
			if r == nil {
				r = b
			} else {
				r = alt(b, r)
			}
		}
		if r == nil {
			r = sSkip
		}
		return blockOf(r)
	case *ast.GoStmt:
		if lit, ok := ast.Unparen(s.Call.Fun).(*ast.FuncLit); ok {
			t.hoistLit(lit, fr, "go")
			return t.exprs(s.Call.Args, fr)
		}
		fn, recv := t.callee(s.Call, fr)
		if fn != nil && recv != nil && !t.excluded(fn.Pkg().Path()) {
			t.hoistMethod(fn, recv, fr)
			return seq(t.expr(recv, fr, false), t.exprs(s.Call.Args, fr))
		}
		if fn != nil && !t.excluded(fn.Pkg().Path()) {
			t.note("go statement calling function %s: analysed as a root only if listed", fn.FullName())
		}
		return t.exprs(s.Call.Args, fr)
	case *ast.DeferStmt:
		return t.bad("defer below the top level of a function at %s", t.pos(s.Pos()))
	case *ast.LabeledStmt:
		return t.bad("label at %s", t.pos(s.Pos()))
	}
	return t.bad("statement %T at %s", s, t.pos(s.Pos()))
}

func (t *tr) pkgVar(v *types.Var, w bool, p token.Pos) *S {
	name := short(v.Pkg().Path()) + "." + v.Name()
	kind, ok := t.cfg.Vars[name]
	if !ok {
		return t.bad("package variable %s is not classified in locks.json (at %s)", name, t.pos(p))
	}
	switch kind {
	case "immutable":
		if w {
			return t.bad("write to immutable package variable %s at %s", name, t.pos(p))
		}
	case "sync", "atomic", "init":
	default:
		return t.ev("need", kind, w)
	}
	return sSkip
}

// ---- output -------------------------------------------------------------------------------------

func (s *S) lean(b *strings.Builder) {
	switch s.k {
	case "skip":
		b.WriteString(".skip")
	case "ret":
		b.WriteString(".ret")
	case "brk":
		b.WriteString(".brk")
	case "cont":
		b.WriteString(".cont")
	case "bad":
		b.WriteString(".bad")
	case "ev":
		fmt.Fprintf(b, "(.ev (.%s %d %v))", s.ek, s.l, s.w)
	case "seq", "alt", "scope":
		fmt.Fprintf(b, "(.%s ", s.k)
		s.a.lean(b)
		b.WriteString(" ")
		s.b.lean(b)
		b.WriteString(")")
	case "loop", "frame", "block":
		fmt.Fprintf(b, "(.%s ", s.k)
		s.a.lean(b)
		b.WriteString(")")
	}
}

func (s *S) size() int {
	if s == nil {
		return 0
	}
	return 1 + s.a.size() + s.b.size()
}

func (s *S) pretty(b *strings.Builder, ind string, locks []string) {
	switch s.k {
	case "ev":
		m := "W"
		if !s.w {
			m = "R"
		}
		fmt.Fprintf(b, "%s%s %s %s   -- %s\n", ind, s.ek, locks[s.l], m, s.src)
	case "bad":
		fmt.Fprintf(b, "%sBAD %s\n", ind, s.why)
	case "seq":
		s.a.pretty(b, ind, locks)
		s.b.pretty(b, ind, locks)
	case "alt":
		fmt.Fprintf(b, "%salt {\n", ind)
		s.a.pretty(b, ind+"  ", locks)
		fmt.Fprintf(b, "%s} or {\n", ind)
		s.b.pretty(b, ind+"  ", locks)
		fmt.Fprintf(b, "%s}\n", ind)
	case "scope":
		fmt.Fprintf(b, "%sscope {\n", ind)
		s.a.pretty(b, ind+"  ", locks)
		fmt.Fprintf(b, "%s} finally {\n", ind)
		s.b.pretty(b, ind+"  ", locks)
		fmt.Fprintf(b, "%s}\n", ind)
	case "loop", "frame", "block":
		fmt.Fprintf(b, "%s%s {\n", ind, s.k)
		s.a.pretty(b, ind+"  ", locks)
		fmt.Fprintf(b, "%s}\n", ind)
	default:
		fmt.Fprintf(b, "%s%s\n", ind, s.k)
	}
}

// ---- diagnostic replica of the Lean checker (not trusted: the verdict is Lean's) ------------------

type ls map[int]bool // lock -> exclusive?

func (l ls) key() string {
	var ks []string
	for k, w := range l {
		ks = append(ks, fmt.Sprintf("%d:%v", k, w))
	}
	sort.Strings(ks)
	return strings.Join(ks, ",")
}
func (l ls) copy() ls {
	r := ls{}
	for k, v := range l {
		r[k] = v
	}
	return r
}

type res struct{ norm, ret, brk, cont ls }

type failure struct {
	at  *S
	why string
}

func mergeL(a, b ls, at *S, what string) (ls, *failure) {
	if a == nil {
		return b, nil
	}
	if b == nil {
		return a, nil
	}
	if a.key() != b.key() {
		return nil, &failure{at, "paths join holding different locks (" + what + ")"}
	}
	return a, nil
}

func mergeR(a, b *res, at *S) (*res, *failure) {
	var r res
	var f *failure
	if r.norm, f = mergeL(a.norm, b.norm, at, "normal"); f != nil {
		return nil, f
	}
	if r.ret, f = mergeL(a.ret, b.ret, at, "return"); f != nil {
		return nil, f
	}
	if r.brk, f = mergeL(a.brk, b.brk, at, "break"); f != nil {
		return nil, f
	}
	if r.cont, f = mergeL(a.cont, b.cont, at, "continue"); f != nil {
		return nil, f
	}
	return &r, nil
}

func (t *tr) chk(s *S, L ls) (*res, *failure) {
	switch s.k {
	case "skip":
		return &res{norm: L}, nil
	case "bad":
		return nil, &failure{s, "not translatable: " + s.why}
	case "ret":
		return &res{ret: L}, nil
	case "brk":
		return &res{brk: L}, nil
	case "cont":
		return &res{cont: L}, nil
	case "ev":
		w, held := L[s.l]
		switch s.ek {
		case "acq":
			if held {
				return nil, &failure{s, "acquires a mutex it already holds"}
			}
			n := L.copy()
			n[s.l] = s.w
			return &res{norm: n}, nil
		case "rel":
			if !held || w != s.w {
				return nil, &failure{s, "releases a mutex it does not hold (in that mode)"}
			}
			n := L.copy()
			delete(n, s.l)
			return &res{norm: n}, nil
		default:
			if !held || (s.w && !w) {
				return nil, &failure{s, "accesses guarded state without holding its mutex (in the needed mode)"}
			}
			return &res{norm: L}, nil
		}
	case "seq":
		ra, f := t.chk(s.a, L)
		if f != nil {
			return nil, f
		}
		if ra.norm == nil {
			return ra, nil
		}
		rb, f := t.chk(s.b, ra.norm)
		if f != nil {
			return nil, f
		}
		ra2 := *ra
		ra2.norm = nil
		return mergeR(&ra2, rb, s)
	case "alt":
		ra, f := t.chk(s.a, L)
		if f != nil {
			return nil, f
		}
		rb, f := t.chk(s.b, L)
		if f != nil {
			return nil, f
		}
		return mergeR(ra, rb, s)
	case "loop":
		ra, f := t.chk(s.a, L)
		if f != nil {
			return nil, f
		}
		for _, x := range []ls{ra.norm, ra.cont, ra.brk} {
			if x != nil && x.key() != L.key() {
				return nil, &failure{s, "loop body changes the set of held locks"}
			}
		}
		return &res{norm: L, ret: ra.ret}, nil
	case "scope":
		ra, f := t.chk(s.a, L)
		if f != nil {
			return nil, f
		}
		if ra.brk != nil || ra.cont != nil {
			return nil, &failure{s, "break/continue out of a function body"}
		}
		rn, rr := &res{}, &res{}
		if ra.norm != nil {
			if rn, f = t.chk(s.b, ra.norm); f != nil {
				return nil, f
			}
		}
		if ra.ret != nil {
			rf, f := t.chk(s.b, ra.ret)
			if f != nil {
				return nil, f
			}
			if rf.ret != nil || rf.brk != nil || rf.cont != nil {
				return nil, &failure{s, "deferred code does not complete normally"}
			}
			rr = &res{ret: rf.norm}
		}
		return mergeR(rn, rr, s)
	case "frame":
		ra, f := t.chk(s.a, L)
		if f != nil {
			return nil, f
		}
		if ra.brk != nil || ra.cont != nil {
			return nil, &failure{s, "break/continue out of a function body"}
		}
		n, f := mergeL(ra.norm, ra.ret, s, "returns of one call")
		if f != nil {
			return nil, f
		}
		return &res{norm: n}, nil
	case "block":
		ra, f := t.chk(s.a, L)
		if f != nil {
			return nil, f
		}
		n, f := mergeL(ra.norm, ra.brk, s, "break")
		if f != nil {
			return nil, f
		}
		return &res{norm: n, ret: ra.ret, cont: ra.cont}, nil
	}
	return nil, &failure{s, "unknown node"}
}

func (t *tr) explain(r *root) string {
	rs, f := t.chk(r.body, ls{})
	if f == nil {
		for _, x := range []ls{rs.norm, rs.ret} {
			if x != nil && len(x) != 0 {
				return "returns still holding " + t.lsNames(x)
			}
		}
		if rs.brk != nil || rs.cont != nil {
			return "break/continue out of the root"
		}
		return ""
	}
	msg := f.why
	if f.at != nil && f.at.k == "ev" {
		msg += ": " + f.at.ek + " " + t.locks[f.at.l]
		if f.at.src != "" {
			msg += " at " + f.at.src
		}
	}
	return msg
}

func (t *tr) lsNames(l ls) string {
	var ks []string
	for k := range l {
		ks = append(ks, t.locks[k])
	}
	sort.Strings(ks)
	return strings.Join(ks, ", ")
}

func leanStr(s string) string {
	return `"` + strings.NewReplacer(`\`, `\\`, `"`, `\"`).Replace(s) + `"`
}

func main() {
	repo := flag.String("repo", "/repo", "")
	cfgPath := flag.String("config", "locks.json", "")
	out := flag.String("out", "", "Lean file to write")
	dump := flag.String("dump", "", "readable dump")
	explain := flag.String("explain", "", "JSON file: diagnostic verdict per root (replica of the Lean checker, for reports only)")
	flag.Parse()

	var cfg config
	raw, err := os.ReadFile(*cfgPath)
	if err != nil {
		panic(err)
	}
	if err := json.Unmarshal(raw, &cfg); err != nil {
		panic(err)
	}
	pcfg := &packages.Config{Mode: packages.NeedName | packages.NeedFiles | packages.NeedSyntax | packages.NeedTypes | packages.NeedTypesInfo | packages.NeedImports | packages.NeedDeps, Dir: *repo}
	pkgs, err := packages.Load(pcfg, "./...")
	if err != nil {
		panic(err)
	}
	t := &tr{cfg: cfg, pkgs: map[string]*packages.Package{}, decls: map[*types.Func]*ast.FuncDecl{}, declPkg: map[*types.Func]*packages.Package{},
		lockIx: map[string]int{}, rootIx: map[string]bool{}, notes: map[string]bool{}, written: map[string]map[string]bool{}}
	sort.Slice(pkgs, func(i, j int) bool { return pkgs[i].PkgPath < pkgs[j].PkgPath })
	var unclassified []string
	for _, p := range pkgs {
		if t.excluded(p.PkgPath) {
			continue
		}
		if len(p.Errors) > 0 {
			fmt.Fprintf(os.Stderr, "lockx: package %s has errors: %v\n", p.PkgPath, p.Errors[0])
			os.Exit(2)
		}
		t.fset = p.Fset
		t.pkgs[p.PkgPath] = p
		for _, f := range p.Syntax {
			for _, d := range f.Decls {
				if fd, ok := d.(*ast.FuncDecl); ok {
					if fn, ok := p.TypesInfo.Defs[fd.Name].(*types.Func); ok {
						t.decls[fn] = fd
						t.declPkg[fn] = p
					}
				}
			}
		}
		sc := p.Types.Scope()
		for _, n := range sc.Names() {
			switch o := sc.Lookup(n).(type) {
			case *types.TypeName:
				if named, ok := o.Type().(*types.Named); ok {
					t.impls = append(t.impls, named)
					if _, ok := named.Underlying().(*types.Struct); ok {
						if _, ok := cfg.Structs[short(p.PkgPath)+"."+n]; !ok {
							unclassified = append(unclassified, short(p.PkgPath)+"."+n)
						}
					}
				}
			case *types.Var:
				if _, ok := cfg.Vars[short(p.PkgPath)+"."+n]; !ok {
					unclassified = append(unclassified, "var "+short(p.PkgPath)+"."+n)
				}
			}
		}
	}
	// roots
	for _, spec := range cfg.Roots {
		i := strings.LastIndex(spec, ".")
		pkgPath, name := modPath+"/"+spec[:i], spec[i+1:]
		if spec[:i] == "" {
			pkgPath = modPath
		}
		p := t.pkgs[pkgPath]
		if p == nil {
			t.note("BAD: root package %s not found", pkgPath)
			t.roots = append(t.roots, &root{name: spec, body: &S{k: "bad", why: "root not found"}})
			continue
		}
		o := p.Types.Scope().Lookup(name)
		switch o := o.(type) {
		case *types.Func:
			r := &root{name: spec}
			for _, c := range cfg.Ctors {
				if strings.HasPrefix(short(pkgPath)+"."+name, c) || strings.HasPrefix(name, c) {
					r.ctor = true
				}
			}
			t.curRoot = r
			t.stack = nil
			r.body = t.inline(o, t.decls[o], "", nil, nil, nil, nil)
			t.roots = append(t.roots, r)
		case *types.TypeName:
			named := o.Type().(*types.Named)
			for i := 0; i < named.NumMethods(); i++ {
				m := named.Method(i).Origin()
				decl := t.decls[m]
				if decl == nil {
					continue
				}
				rn := "recv"
				if decl.Recv != nil && len(decl.Recv.List[0].Names) == 1 {
					rn = decl.Recv.List[0].Names[0].Name
				}
				r := &root{name: spec + "." + m.Name(), recvText: rn, recvType: short(pkgPath) + "." + name}
				t.curRoot = r
				t.stack = nil
				r.body = t.inline(m, decl, rn, nil, nil, nil, nil)
				t.roots = append(t.roots, r)
			}
		default:
			t.note("BAD: root %s not found", spec)
			t.roots = append(t.roots, &root{name: spec, body: &S{k: "bad", why: "root not found"}})
		}
		for len(t.pending) > 0 {
			f := t.pending[0]
			t.pending = t.pending[1:]
			f()
		}
	}
	// lazily built structs: everything written anywhere must be written by the constructor's expansion
	for name, spec := range cfg.Structs {
		if spec.Kind != "lazy" {
			continue
		}
		all := t.written[name]
		t.written[name] = map[string]bool{}
		i := strings.LastIndex(spec.Ctor, ".")
		p := t.pkgs[modPath+"/"+spec.Ctor[:i]]
		r := &root{name: "lazy-complete " + name, ctor: true}
		body := sSkip
		if p == nil || p.Types.Scope().Lookup(spec.Ctor[i+1:]) == nil {
			body = t.bad("constructor %s of %s not found", spec.Ctor, name)
		} else {
			fn := p.Types.Scope().Lookup(spec.Ctor[i+1:]).(*types.Func)
			t.curRoot = r
			t.stack = nil
			_ = t.inline(fn, t.decls[fn], "", nil, nil, nil, nil)
			t.pending = nil
			var missing []string
			for f := range all {
				if !t.written[name][f] {
					missing = append(missing, f)
				}
			}
			sort.Strings(missing)
			if len(missing) > 0 {
				body = t.bad("%s: fields %v are written lazily but not by %s", name, missing, spec.Ctor)
			}
		}
		r.body = body
		t.roots = append(t.roots, r)
	}
	sort.Strings(unclassified)
	for _, u := range unclassified {
		t.roots = append(t.roots, &root{name: "unclassified " + u, body: t.bad("%s is not classified in locks.json", u)})
	}
	sort.SliceStable(t.roots, func(i, j int) bool { return t.roots[i].name < t.roots[j].name })

	var notes []string
	for n := range t.notes {
		notes = append(notes, n)
	}
	sort.Strings(notes)

	if *dump != "" {
		var b strings.Builder
		for _, r := range t.roots {
			fmt.Fprintf(&b, "== %s (%d nodes)\n", r.name, r.body.size())
			r.body.pretty(&b, "  ", t.locks)
		}
		b.WriteString("== notes\n")
		for _, n := range notes {
			b.WriteString("  " + n + "\n")
		}
		os.WriteFile(*dump, []byte(b.String()), 0o644)
	}
	if *out != "" {
		var b strings.Builder
		b.WriteString("import FsDb.Model.Lockset\n/- GENERATED by /verif/lockx from /repo's working tree; do not edit. -/\nnamespace FsDb.Generated.Locks\nopen FsDb.Lockset\n\n")
		b.WriteString("def lockNames : List String := [\n")
		for i, l := range t.locks {
			sep := ","
			if i == len(t.locks)-1 {
				sep = ""
			}
			fmt.Fprintf(&b, "  %s%s\n", leanStr(l), sep)
		}
		b.WriteString("]\n\n")
		for i, r := range t.roots {
			fmt.Fprintf(&b, "/-- %s -/\ndef f%d : Stmt :=\n  ", strings.ReplaceAll(r.name, "-/", "- /"), i)
			r.body.lean(&b)
			b.WriteString("\n\n")
		}
		b.WriteString("def funcs : List Stmt := [")
		for i := range t.roots {
			if i > 0 {
				b.WriteString(", ")
			}
			fmt.Fprintf(&b, "f%d", i)
		}
		b.WriteString("]\n\ndef funcNames : List String := [\n")
		for i, r := range t.roots {
			sep := ","
			if i == len(t.roots)-1 {
				sep = ""
			}
			fmt.Fprintf(&b, "  %s%s\n", leanStr(r.name), sep)
		}
		b.WriteString("]\n\ndef notes : List String := [\n")
		for i, n := range notes {
			sep := ","
			if i == len(notes)-1 {
				sep = ""
			}
			fmt.Fprintf(&b, "  %s%s\n", leanStr(n), sep)
		}
		b.WriteString("]\n\nend FsDb.Generated.Locks\n")
		if err := os.WriteFile(*out, []byte(b.String()), 0o644); err != nil {
			panic(err)
		}
	}
	if *explain != "" {
		type ex struct{ Root, Why string }
		var exs []ex
		for _, r := range t.roots {
			if w := t.explain(r); w != "" {
				exs = append(exs, ex{r.name, w})
			}
		}
		jb, _ := json.MarshalIndent(map[string]any{"failing": exs, "roots": len(t.roots), "locks": len(t.locks), "notes": notes}, "", " ")
		os.WriteFile(*explain, jb, 0o644)
	}
	nb := 0
	for _, n := range notes {
		if strings.HasPrefix(n, "BAD") {
			nb++
		}
	}
	fmt.Printf("lockx: %d roots, %d locks, %d notes (%d BAD)\n", len(t.roots), len(t.locks), len(notes), nb)
}
