#!/usr/bin/env python3
"""Re-run the checks against every saved seeded change (/verif/seeded/<id>/patch.diff) on /repo's
current HEAD: apply, run, undo.  usage: tools/reseed.py [seed-id ...] [--extra C15]
Updates meta.json (results, repo_head).  Never commits anything in /repo."""
import json, os, subprocess, sys
V = os.path.dirname(os.path.dirname(os.path.abspath(__file__)))

def sh(cmd, cwd=None, timeout=6000):
    p = subprocess.run(cmd, shell=True, cwd=cwd, stdout=subprocess.PIPE, stderr=subprocess.STDOUT, text=True, timeout=timeout)
    return p.returncode, p.stdout

def main():
    args = [a for a in sys.argv[1:] if not a.startswith("--")]
    extra = []
    if "--extra" in sys.argv:
        extra = sys.argv[sys.argv.index("--extra") + 1].split(",")
        args = [a for a in args if a not in extra and a != ",".join(extra)]
    ids = args or sorted(os.listdir(os.path.join(V, "seeded")))
    rc, head = sh("git -C /repo rev-parse --short HEAD")
    summary = {}
    for sid in ids:
        d = os.path.join(V, "seeded", sid)
        patch = os.path.join(d, "patch.diff")
        if not os.path.exists(patch):
            continue
        mp = os.path.join(d, "meta.json")
        meta = json.load(open(mp)) if os.path.exists(mp) else {}
        prop = meta.get("property") or sid[:3].upper()
        checks = list(dict.fromkeys([prop] + list((meta.get("results") or {}).keys()) + extra))
        rc, out = sh("git -C /repo status --porcelain")
        if out.strip():
            print("/repo not clean; abort"); return 2
        rc, out = sh("git -C /repo apply --3way %s 2>&1 || git -C /repo apply %s" % (patch, patch))
        rc2, st = sh("git -C /repo status --porcelain")
        if not st.strip():
            print(sid, "patch does not apply:", out[-300:]); summary[sid] = "DOES-NOT-APPLY"
            sh("git -C /repo checkout -- . ; git -C /repo reset -q")
            continue
        sh("git -C /repo reset -q")   # --3way stages; keep the change in the working tree only
        results = {}
        try:
            for c in checks:
                rc, out = sh("./check %s quick" % c, cwd=V)
                lines = [l for l in out.splitlines() if l.startswith(("VIOLATION", "KNOWN", "MACHINERY")) or "what:" in l]
                results[c] = {"rc": rc, "lines": [l[:700] for l in lines[:6]]}
        finally:
            sh("git -C /repo checkout -- . ; git -C /repo clean -fdq -- internal pkg config cmd")
        meta.update({"property": prop, "results": results, "repo_head": head.strip()})
        json.dump(meta, open(mp, "w"), indent=1)
        caught = [c for c, r in results.items() if r["rc"] == 1]
        # concrete: at least one VIOLATION line that does not end in no-failing-input-found
        concrete = [c for c, r in results.items() if r["rc"] == 1 and any("no-failing-input-found" not in l for l in r["lines"] if l.startswith("VIOLATION"))]
        summary[sid] = "caught by %s (concrete input: %s)" % (caught, concrete) if caught else "MISSED"
        print(sid, "->", summary[sid], flush=True)
    return 0

sys.exit(main())
