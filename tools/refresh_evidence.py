#!/usr/bin/env python3
"""Re-run every quick check on the CLEAN tree so that the committed evidence files come from runs
against /repo itself at its HEAD (never from a run on a seeded tree).  usage: tools/refresh_evidence.py [Cnn ...]"""
import json, os, subprocess, sys, time
V = os.path.dirname(os.path.dirname(os.path.abspath(__file__)))
st = subprocess.run(["git", "-C", "/repo", "status", "--porcelain"], capture_output=True, text=True).stdout
if st.strip():
    sys.exit("/repo is not clean:\n" + st)
ids = sys.argv[1:] or ["C%02d" % i for i in range(1, 21)]
bad = []
for p in ids:
    t = time.time()
    r = subprocess.run(["./check", p, "quick"], cwd=V, capture_output=True, text=True)
    last = (r.stdout.strip().splitlines() or [""])[-1][:160]
    ev = json.load(open(os.path.join(V, "evidence", p + ".json")))
    cov = ev["coverage"]
    ok = r.returncode == 0 and cov.get("discharged", 0) >= 1 and cov.get("discharged") == cov.get("obligations") and "dirty" not in str(cov.get("repo"))
    print("%s rc=%d %3ds discharged=%s/%s %s" % (p, r.returncode, time.time() - t, cov.get("discharged"), cov.get("obligations"), last), flush=True)
    if not ok:
        bad.append(p)
print("NOT OK: %s" % bad if bad else "all evidence refreshed on the clean tree")
sys.exit(1 if bad else 0)
