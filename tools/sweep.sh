#!/bin/bash
# run every quick check for several seeds on the current tree; print only non-ok endings
cd /verif
for seed in "$@"; do
  for p in C01 C02 C03 C04 C05 C06 C07 C08 C09 C10 C11 C12 C13 C14 C15 C16 C17 C18 C19 C20; do
    out=$(VERIF_SEED=$seed ./check $p quick 2>&1); rc=$?
    if [ $rc -ne 0 ] || echo "$out" | grep -q "^VIOLATION\|MACHINERY"; then
      echo "seed=$seed $p rc=$rc"; echo "$out" | grep "VIOLATION\|what:\|MACHINERY" | head -5
    fi
  done
  echo "seed $seed done"
done
