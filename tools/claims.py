# one entry per property: claim(...) or na(...)
PENDING = "check not built yet in this round (work in progress; see DESIGN.md §12) — no verdict is given for this property"
claim("C18", "proof",
      "Lean theorems C18_lastBefore(_max,_none), C18_wf_preserved, C18_collect_exact, C18_collect_keeps_latest, C18_collect_lookup for lists of any length over a model of file.go; tie: skeleton text of the file.go functions regenerated from /repo on every run must equal the text the model was written from, and the real pointer structure is run against the compiled model on exhaustive (all subsets of a 9/12-element domain x probes x horizons) and random op scripts.",
      "DESIGN.md §9 C18",
      "Lean kernel + propext/Classical.choice/Quot.sound; linked list/pool abstracted to List (modelled); extractor + differential harness trusted; seq as Nat",
      "Lean 4 proof (induction over the binary search / collect recursion) + regenerated skeleton tie + differential correspondence")
claim("C19", "proof",
      "Lean theorems C19_roundtrip (every record with 16-byte ids, any key bytes, any 64-bit seq), C19_layout (byte-by-byte little-endian layout), C19_reject_iff (decode rejects exactly inputs shorter than 40 bytes; total), C19_decode_encode (injectivity) and C19_uuid (canonical text round trip); tie: generated constants and skeletons of marshalFile/unmarshalFile/key/Set/GetAll, differential run through the real Repo.Set/Repo.GetAll on boundary, random and malformed inputs, committed golden vectors.",
      "DESIGN.md §9 C19",
      "Lean kernel; google/uuid modelled for the canonical form only; extractor + harness trusted; Go slice-bounds (no panic) only exercised, not proven",
      "Lean 4 proof (algebraic round-trip laws, omega over div/mod) + regenerated constants/skeleton tie + differential correspondence")
claim("C20", "proof",
      "Lean theorems C20_precedence, C20_no_file, C20_malformed_is_error, C20_valid over all combinations of layer states of the seven settings (values abstracted to provenance tokens); tie: skeletons of ParseConfig/ParseEnv/Valid/const blocks/struct tags + generated constants; differential run of the real ParseConfig+Valid on single, pairwise, random (quick) and the full 6^7 product (thorough) of layer combinations.",
      "DESIGN.md §9 C20",
      "Lean kernel; strconv/time.ParseDuration/yaml.v2 are parameters with contract 'malformed => error' (trusted, exercised); extractor + harness trusted",
      "Lean 4 proof (case analysis over layer states) + regenerated skeleton/constant tie + differential correspondence")
SEQ_NOTE = 'Lean kernel + propext/Classical.choice/Quot.sound; concrete model hand-written (maps as functions, uuids as indices, Badger/FS as record lists, one atomic step per operation) and tied by skeleton texts of all modelled functions + three-way differential run (implementation = concrete model = specification on generated histories through the real inline database); Go runtime/Badger/OS modelled (DESIGN §10)'
SEQ_TECH = 'Lean 4 proof: refinement (forward simulation, invariant of 21 conjuncts) of the concrete model to an abstract specification + corollaries on the specification; tie = regenerated skeleton texts + differential correspondence on the real database'
claim("C01", "proof",
      "Refine.run (every history: concrete model of version lists/array search/all-store/commit/collector answers exactly what Spec.Iso answers) + C01_map_spec/C01_map_concrete (autocommit histories behave like a plain map: the simplest possible spec) + the clauses C01_get_after_set, C01_other_key, C01_get_after_del, C01_empty_key, C01_missing, C01_keys (sorted, duplicate-free, iff Get succeeds). Correspondence: autocommit histories with Set/SetReader/Create, contents around the 2048/32768 boundaries, byte-exact, on the real inline DB.",
      "DESIGN.md §9 C01", SEQ_NOTE, SEQ_TECH)
claim("C02", "proof",
      "C02_refinement = Refine.run: for EVERY history of Begin/Set/Delete/Get/GetKeys/Commit/Rollback/gc/drain (any number of open transactions, any levels, any number of versions) the concrete model answers what the specification answers; plus C02_RU, C02_RC, C02_RR_own, C02_RR_snapshot, C02_keys_iff_get, C02_autocommit_is_RC, C02_deleted_reads_notfound on the specification. Correspondence: observers at all levels read every key after every step on the real DB, gc at random positions.",
      "DESIGN.md §9 C02", SEQ_NOTE, SEQ_TECH)
claim("C03", "proof",
      "On the specification (carried to the concrete model by Refine.step): C03_commit_ok (all own last writes become the committed values at once, nothing else changes), C03_rollback_noop, C03_failed_commit_noop, C03_conflict_iff (snapshot commit fails iff some written key has a committed version newer than the begin stamp), C03_no_conflict_RU_RC. Correspondence: conflict-biased histories on the real DB.",
      "DESIGN.md §9 C03", SEQ_NOTE, SEQ_TECH)
claim("C09", "proof",
      "C09_gc_invisible_now / C09_cleanup_invisible_now (no read by anyone changes across a collector pass or cleanup, in every reachable state), C09_gc_invisible_later (the post-state is again related to the specification state, identical when a transaction is open and differing only in the clock otherwise), C09_no_live_content_removed, C09_horizon_not_version. PARTIAL: the last step of 'later' for the no-open-transaction case (specification answers are invariant under a clock shift) is not yet a theorem; it is covered by the correspondence run with gc+drain before every op.",
      "DESIGN.md §9 C09", SEQ_NOTE, SEQ_TECH + "; partial (clock-shift invariance of the spec not proved)")
claim("C13", "proof",
      "C13_late_use (every Get/GetKeys/Set/Delete/Commit through a closed or unknown id answers ErrTxNotFound, Rollback ok, state unchanged), C13_closed_after_end, C13_stays_closed, C13_begin_fresh on the specification; C13_late_use_concrete through the refinement (the registry guard of store.Guarded is part of the model). Correspondence: 30 percent of transactional ops through finished handles, RU observers, reopen; corpus witness of the repaired zombie-write defect runs first.",
      "DESIGN.md §9 C13", SEQ_NOTE, SEQ_TECH)
claim("C14", "proof",
      "PARTIAL. Proved: deletion jobs only name unlinked versions (C14_jobs_are_dead), every reachable version keeps its content (C14_live_has_content), rollback/failed commit/commit/collector hand over exactly the right versions (C14_rollback_schedules_all, C14_commit_schedules_rest, C14_gc_schedules_collected), with no transaction open the collector keeps exactly the newest version per key (C14_gc_keeps_only_latest). Not yet a theorem: the equality 'content files = committed values' at quiescence and after reopen; it is decided by the correspondence run (walk of the real storage roots vs model vs specification after drain;gc;drain and after reopen;drain).",
      "DESIGN.md §9 C14", SEQ_NOTE, SEQ_TECH + "; partial")
CONC_NOTE = SEQ_NOTE + "; a critical section under an exclusive lock = one atomic model step (trusted); schedules enforced only at verif hook points"
CONC_TECH = "Lean 4 proof on the specification/model of atomic steps + skeleton tie of the lock structure + enforced-schedule exploration on the real database with linearizability against the Lean spec"
claim("C06", "proof",
      "PARTIAL. C06_atomic_steps_refine (all interleavings of atomic steps = all histories refine Spec.Iso), C06_no_wait_cycle (ordered lock acquisition excludes wait cycles) with C06_lock_order over the lock classes of usecase/core. That each real operation is atomic is checked, not proved: enforced schedules of reader/writer/collector/rollback programs on the real DB at hook points, answers must be linearizable against the Lean spec. One open known finding (GetKeys reclaim window).",
      "DESIGN.md §9 C06", CONC_NOTE, CONC_TECH + "; partial")
claim("C07", "proof",
      "C07_first_committer_wins: on the specification, for two open transactions that wrote the same key, after the first commits successfully the second (snapshot level) fails with ErrTxSerialization after ANY further history, its writes never become visible and it is closed; atomicity of the real commit is tied by the UpdateTx skeleton (single critical section) and checked by exhaustive enforced schedules of 2-3 committers on the real DB (the repaired lost-update schedule is replayed on every run).",
      "DESIGN.md §9 C07", CONC_NOTE, CONC_TECH)
claim("C08", "proof",
      "C08_repeatable(_step) (what a snapshot sees of any key is unchanged by any operation of anybody incl. the collector), C08_atomic_visibility (a commit's versions carry one stamp: a snapshot begun before sees none, one begun after has all below its begin stamp), C08_concrete_snapshot (the concrete snapshot read equals the specification's after any collector passes). Real-code side: skeletons of Begin/UpdateTx/cleaner.DeleteOld (one number per commit under the main lock; horizon lock) + enforced schedules (fractured-read and Begin-vs-GC witnesses replayed on every run).",
      "DESIGN.md §9 C08", CONC_NOTE, CONC_TECH)
claim("C12", "proof",
      "On the small-step model of the read-writer (mutex, condition variable with tickets, closed flag, buffer, wait group; writer script of any write sizes incl. 0, storing goroutine): C12_concat (in every reachable state where Close has returned the storer consumed exactly the concatenation, EOF only after closed and empty), C12_no_stuck (no deadlock / lost wake-up in any reachable state before Close returned), C12_writer_progress (decreasing measure); witnesses C12_empty_write_witness and C12_lost_wakeup_witness for the pin's code. Real code: enforced schedules on the real readWriter at hook points (both repaired witness schedules replayed first), Create/Write*/Close/Get with random splits in the C01 correspondence. PARTIAL: the gRPC Create path (stream writer) is covered by the skeleton tie and the chunking theorems of C11 only once those are built; termination under fairness is trusted.",
      "DESIGN.md §9 C12",
      "Lean kernel; sync.Mutex/sync.Cond/WaitGroup/atomic semantics modelled (DESIGN §6); fair scheduler trusted; hook scheduler + extractor trusted",
      "Lean 4 proof (invariant over an interleaved small-step protocol model, no-stuck + variant) + skeleton tie + enforced-schedule exploration on the real code")
claim("C16", "proof",
      "PARTIAL. On the model of the deferred-send path: C16_conservation (no event lost or duplicated, any reachable state), C16_every_job_delivered (when nothing can move every event has been delivered exactly as often as sent, no further Send needed), C16_flusher_covers (a non-empty list always has a running flusher), C16_handoff_witness for the pin. Channel/workers/Stop/Run orders/prompt return are exercised on the real pool (handoff orchestrated with hook points, send-before-run, stop-before-run, run-twice, double Stop x200, random stress), not proved.",
      "DESIGN.md §9 C16",
      "Lean kernel; critical sections under listM as atomic steps (trusted); channel, workers, context cancellation not modelled",
      "Lean 4 proof (invariant + conservation over a small-step model of the deferred-send protocol) + skeleton tie + orchestrated/randomised runs of the real pool")
claim("C05", "proof",
      "PARTIAL. On the specification: C05_reopen_spec / C05_reopen_reads (a reopen keeps the committed history and every autocommit read, drops open transactions), C05_reopen_inv, C05_later_write_wins (a write after a reopen gets a stamp above everything committed: it wins now and after every later reopen), also in a fresh process. On the concrete model of Load: C05_counter_covers (the process counter ends at or above every surviving sequence number whatever was opened before) and C05_cas_witness for the pin's counter rule. Not yet a theorem: that the surviving record per key is the newest committed version (record invariant through all operations); decided by the correspondence run over 1-3 databases with Close/Open and real process restarts (fresh OS processes), impl = model = spec.",
      "DESIGN.md §9 C05", SEQ_NOTE + "; multi-database process model in the driver (one global counter threaded through all databases)", SEQ_TECH + "; partial")
claim("C10", "proof",
      "PARTIAL. Proved: C10_continuation_exact (for every content, chunk size, list of root capacities, partial or all-or-nothing failures: a successful write stores exactly the source), C10_success_iff, C10_stream_complete (any split into stream chunks reassembles exactly), witness C10_duplicate_witness for the pin's replay rule. 'An error leaves no trace' rests on the order content / content record / version in store.Set (the version is the last step; part of the refinement model) and is decided by fault injection on the real code: reader errors and context cancellation at every chunk boundary through the gRPC client (expected: error + old value), reader errors and ENOSPC (partial and all-or-nothing, every subset of 2-3 roots) inline.",
      "DESIGN.md §9 C10",
      "Lean kernel; byte-prefix semantics of write(2) on ENOSPC and gRPC's surfacing of broken streams are modelled/trusted; FaultWrite/DiskFree hooks + extractor trusted",
      "Lean 4 proof (induction over the retry loop; stream algebra) + skeleton tie + fault enumeration on the real code")
claim("C11", "proof",
      "PARTIAL. Proved: C11_error_class_single/none/priority (every single-sentinel error reaches the gRPC caller as that sentinel, anything else as ErrUnknown, for all wrappings since errors.Is is the only observation), C11_code_detail_agree, C11_iso_roundtrip, C11_chunk_roundtrip (any split of any content into Write calls yields chunks of at most the chunk size, none empty, that concatenate to the content). End-to-end indistinguishability is validated, not proved: the op files of the inline correspondence (C01 sizes across the chunk boundary, C02 all levels, C13 late use) are replayed through pkg/external against a real internal/app server on loopback and every answer compared with the specification; gRPC, protobuf, metadata and interceptors are not modelled.",
      "DESIGN.md §9 C11",
      "Lean kernel; gRPC/protobuf trusted (ordered reliable streams, status+details transport); extractor + harness trusted",
      "Lean 4 proof (finite tables by decide, chunking by induction) + skeleton tie + differential replay through a real gRPC server")
claim("C17", "proof",
      "On the directory model (directory = entry count + registered flag): C17_offer (after dir.Get every root has a registered directory below the limit), candidates_below, C17_bound_put / C17_bound_del / C17_bound_reopen (no directory ever exceeds the limit under writes to legal candidates with rotation, deletions, reopening; sequential), C17_reuse (a directory that loses an entry is registered again). Placement (root/uuid-directory/file) and the correspondence of entry counts are checked by walking the real storage roots after every step of long histories (rotation is forced: runs where no directory reaches the limit are rejected); the observed random directory choice is a model input that must be a legal candidate.",
      "DESIGN.md §9 C17",
      "Lean kernel; directories abstracted to counts (interchangeable); harness walk + extractor trusted; shuffle (math/rand) not modelled",
      "Lean 4 proof (invariant over the directory model) + skeleton tie + differential walk of the real storage roots")
for p in ["C04","C15"]:
    na(p, PENDING)
