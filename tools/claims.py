# one entry per property: claim(...) or na(...)
PENDING = "check not built yet in this round (work in progress; see DESIGN.md §12) — no verdict is given for this property"
claim("C18", "proof",
      "Lean theorems C18_lastBefore(_max,_none), C18_wf_preserved, C18_collect_exact, C18_collect_keeps_latest, C18_collect_lookup for lists of any length over a model of file.go; tie: skeleton text of the file.go functions regenerated from /repo on every run must equal the text the model was written from, and the real pointer structure is run against the compiled model on exhaustive (all subsets of a 9/12-element domain x probes x horizons) and random op scripts.",
      "DESIGN.md §9 C18",
      "Lean kernel + propext/Classical.choice/Quot.sound; linked list/pool abstracted to List (modelled); extractor + differential harness trusted; seq as Nat",
      "Lean 4 proof (induction over the binary search / collect recursion) + regenerated skeleton tie + differential correspondence")
claim("C19", "proof",
      "Lean theorems C19_roundtrip (every record with 16-byte ids, any key bytes, any 64-bit seq), C19_layout (byte-by-byte little-endian layout), C19_reject_iff (decode rejects exactly inputs shorter than 40 bytes; total), C19_decode_encode (injectivity) and C19_uuid (canonical text round trip); tie: generated constants and skeletons of marshalFile/unmarshalFile/key/Set/GetAll, differential run through the real Repo.Set/Repo.GetAll on boundary, random and malformed inputs, committed golden vectors.",
      "DESIGN.md §9 C19",
      "Lean kernel; google/uuid modelled for the canonical form only; extractor + harness trusted; Go slice-bounds (no panic) only exercised, not proven",
      "Lean 4 proof (algebraic round-trip laws, omega over div/mod) + regenerated constants/skeleton tie + differential correspondence")
claim("C20", "proof",
      "Lean theorems C20_precedence, C20_no_file, C20_malformed_is_error, C20_valid over all combinations of layer states of the seven settings (values abstracted to provenance tokens); tie: skeletons of ParseConfig/ParseEnv/Valid/const blocks/struct tags + generated constants; differential run of the real ParseConfig+Valid on single, pairwise, random (quick) and the full 6^7 product (thorough) of layer combinations.",
      "DESIGN.md §9 C20",
      "Lean kernel; strconv/time.ParseDuration/yaml.v2 are parameters with contract 'malformed => error' (trusted, exercised); extractor + harness trusted",
      "Lean 4 proof (case analysis over layer states) + regenerated skeleton/constant tie + differential correspondence")
for p in ["C01","C02","C03","C04","C05","C06","C07","C08","C09","C10","C11","C12","C13","C14","C15","C16","C17"]:
    na(p, PENDING)
