# one entry per property: claim(...) or na(...)
PENDING = "check not built yet in this round (work in progress; see DESIGN.md §12) — no verdict is given for this property"
claim("C18", "proof",
      "Lean theorems C18_lastBefore(_max,_none), C18_wf_preserved, C18_collect_exact, C18_collect_keeps_latest, C18_collect_lookup for lists of any length over a model of file.go; tie: skeleton text of the file.go functions regenerated from /repo on every run must equal the text the model was written from, and the real pointer structure is run against the compiled model on exhaustive (all subsets of a 9/12-element domain x probes x horizons) and random op scripts.",
      "DESIGN.md §9 C18",
      "Lean kernel + propext/Classical.choice/Quot.sound; linked list/pool abstracted to List (modelled); extractor + differential harness trusted; seq as Nat",
      "Lean 4 proof (induction over the binary search / collect recursion) + regenerated skeleton tie + differential correspondence")
for p in ["C01","C02","C03","C04","C05","C06","C07","C08","C09","C10","C11","C12","C13","C14","C15","C16","C17","C19","C20"]:
    na(p, PENDING)
