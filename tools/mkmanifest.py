#!/usr/bin/env python3
"""Regenerates /verif/MANIFEST.json from the table below (kept valid at all times)."""
import json, os, subprocess
V = os.path.dirname(os.path.dirname(os.path.abspath(__file__)))

def hook_commits():
    try:
        out = subprocess.run(["git", "-C", "/repo", "log", "--format=%H %s"], capture_output=True, text=True).stdout
        return [l.split()[0] for l in out.splitlines() if " verif-hooks:" in l]
    except Exception:
        return []

# property -> (category, text, design_ref, level_note, technique)
CLAIMED = {}
NOT_YET = {}

def claim(pid, category, text, ref, note, technique):
    CLAIMED[pid] = (category, text, ref, note, technique)

def na(pid, reason):
    NOT_YET[pid] = reason

exec(open(os.path.join(V, "tools", "claims.py")).read())

ALL = [json.loads(l)["id"] for l in open(os.path.join(V, "properties.jsonl")) if l.strip()]
missing = [p for p in ALL if p not in CLAIMED and p not in NOT_YET]
if missing:
    raise SystemExit("properties neither claimed nor listed as not applicable: %s" % missing)
checks = []
for pid in sorted(CLAIMED):
    cat, text, ref, note, tech = CLAIMED[pid]
    checks.append({
        "property_id": pid,
        "quick_cmd": "./check %s quick" % pid,
        "thorough_cmd": "./check %s thorough" % pid,
        "evidence_file": "/verif/evidence/%s.json" % pid,
        "replay_cmd_template": "./check %s --replay {path}" % pid,
        "engine": "lean4-fsdb",
        "level_claimed": {"category": cat, "text": text, "design_ref": ref},
        "level_note": note,
        "technique": tech,
    })
m = {
    "version": 1,
    "setup_cmd": "./check setup",
    "hooks": {
        "guard": "verif",
        "enable": "go build/test -tags verif (checks add harness-owned files with `go test -overlay`; /repo is never written)",
        "baseline_off_cmd": "cd /repo && GOFLAGS=-mod=mod GOPROXY=off GOSUMDB=off GOTOOLCHAIN=local go test -json -vet=off -count=1 -timeout 25m ./...",
        "source_commits": hook_commits(),
        "add_only": True,
    },
    "engines": [{
        "name": "lean4-fsdb", "path": "/verif/lean",
        "serves_properties": sorted(CLAIMED),
        "kind_free_text": "Lean 4 executable models + abstract specs + property theorems (lean/FsDb/Properties); tie = regenerated facts (extract/ -> FsDb/Generated, FsDb/Tie) and differential runs of the real Go code (harness/) against the compiled Lean driver (lean/Driver.lean)",
    }],
    "checks": checks,
    "not_applicable": [{"property_id": k, "reason": v} for k, v in sorted(NOT_YET.items())],
    "notes": "All checks: ./check <Cnn> quick|thorough. Exit 2 = machinery error (no verdict). See DESIGN.md.",
}
json.dump(m, open(os.path.join(V, "MANIFEST.json"), "w"), indent=1)
print("claimed:", sorted(CLAIMED), "not claimed:", sorted(NOT_YET))
