#!/usr/bin/env python3
"""Confirm a seeded change produced in a scratch worktree and run checks against it.
usage: tools/seed.py <worktree> <seed-id> <prop> [<check-prop> ...]
 - saves patch.diff + demo into /verif/seeded/<seed-id>/
 - confirms: builds, baseline suite passes with the change, demo fails with / passes without
 - applies the patch to /repo, runs ./check <prop> quick for each listed property, undoes it
"""
import json, os, subprocess, sys, shutil, re
V = os.path.dirname(os.path.dirname(os.path.abspath(__file__)))
env = dict(os.environ, GOFLAGS="-mod=mod", GOPROXY="off", GOSUMDB="off", GOTOOLCHAIN="local")

def sh(cmd, cwd=None, timeout=3000):
    p = subprocess.run(cmd, shell=True, cwd=cwd, env=env, stdout=subprocess.PIPE, stderr=subprocess.STDOUT, text=True, timeout=timeout)
    return p.returncode, p.stdout

def main():
    wt, sid, prop = sys.argv[1], sys.argv[2], sys.argv[3]
    checks = sys.argv[4:] or [prop]
    d = os.path.join(V, "seeded", sid)
    os.makedirs(d, exist_ok=True)
    rc, diff = sh("git diff -- . ':!*zz_demo_test.go'", cwd=wt)
    open(os.path.join(d, "patch.diff"), "w").write(diff)
    rc, files = sh("git status --porcelain", cwd=wt)
    demos = [l[3:].strip() for l in files.splitlines() if "zz_demo" in l]
    meta = {"property": prop, "worktree": wt, "demo_files": demos, "ran": []}
    for f in demos:
        shutil.copy(os.path.join(wt, f), os.path.join(d, os.path.basename(f)))
    demo_pkg = "./" + os.path.dirname(demos[0]) if demos else None
    # 1. build + baseline with the change
    rc, out = sh("go build ./... 2>&1 | grep -v streamwriter/mocks", cwd=wt)
    meta["build_clean"] = out.strip() == ""
    rc, out = sh("go test -vet=off -count=1 ./... 2>&1 | grep -v zz_demo | grep -E '^(--- FAIL|FAIL|panic)' | grep -v 'pkg/test\\|repository/content\\|build failed\\|setup failed'", cwd=wt)
    # failures other than the demo's own package?
    fails = [l for l in out.splitlines() if l.strip()]
    rc2, out2 = sh("go test -vet=off -count=1 ./... -run 'Test[^D]|TestD[^e]' 2>&1 | grep -E '^(--- FAIL|FAIL)' | grep -v 'pkg/test\\|repository/content\\|build failed\\|setup failed'", cwd=wt)
    meta["baseline_fails_with_change"] = [l for l in out2.splitlines() if l.strip()]
    # 2. demo fails with / passes without
    if demo_pkg:
        rc_with, o_with = sh("go test -vet=off -count=1 -tags verif -run 'Demo' %s 2>&1 | tail -5" % demo_pkg, cwd=wt)
        # (no `git stash`: the stash is shared by all worktrees of a repository)
        pf = os.path.join(d, "patch.diff")
        sh("git apply -R %s" % pf, cwd=wt)
        rc_wo, o_wo = sh("go test -vet=off -count=1 -tags verif -run 'Demo' %s 2>&1 | tail -5" % demo_pkg, cwd=wt)
        sh("git apply %s" % pf, cwd=wt)
        meta["demo_with_change"] = o_with.strip().splitlines()[-1] if o_with.strip() else ""
        meta["demo_without_change"] = o_wo.strip().splitlines()[-1] if o_wo.strip() else ""
        meta["demo_ok"] = ("FAIL" in o_with) and ("ok" in o_wo and "FAIL" not in o_wo)
    # 3. run checks against it
    rc, out = sh("git -C /repo status --porcelain")
    if out.strip():
        print("/repo not clean; abort"); return 2
    rc, out = sh("git -C /repo apply %s" % os.path.join(d, "patch.diff"))
    if rc != 0:
        print("patch does not apply:", out); return 2
    results = {}
    try:
        for c in checks:
            rc, out = sh("./check %s quick" % c, cwd=V)
            lines = [l for l in out.splitlines() if l.startswith("VIOLATION") or l.startswith("KNOWN") or l.startswith("MACHINERY") or "what:" in l]
            results[c] = {"rc": rc, "lines": lines[:6]}
            meta["ran"].append("./check %s quick -> rc=%d" % (c, rc))
    finally:
        sh("git -C /repo checkout -- .")
        sh("git -C /repo clean -fdq -- . ':!test_db' ':!testStorage'")
    meta["results"] = results
    meta["detected_by"] = [c for c, r in results.items() if r["rc"] == 1]
    json.dump(meta, open(os.path.join(d, "meta.json"), "w"), indent=1)
    print(json.dumps(meta, indent=1))

if __name__ == "__main__":
    sys.exit(main())
